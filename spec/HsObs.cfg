SPECIFICATION Spec
CONSTANTS
  TraceFile = "trace.ndjson"
  Role = "server"
POSTCONDITION Consumed
CHECK_DEADLOCK FALSE
