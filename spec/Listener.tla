------------------------------ MODULE Listener ------------------------------
(* The contract of a transport listener, for the three implementations, one    *)
(* operation at a time:                                                        *)
(*   listen  "ok" | "err"          dial    "ok" | "err" (refused)              *)
(*   accept  "ok" | "err" | "timeout"      close   "ok" | "err" | "hang"       *)
(* tcp / ws: Listen on a started listener is an error; Close of one that is    *)
(*   not started is an error; after Close it can be started again; a dial      *)
(*   succeeds as soon as the listener is started (the connection waits to be   *)
(*   accepted), what was dialled and never accepted is lost with Close.        *)
(* in-process: Listen registers the address (an error while it is registered), *)
(*   Close unregisters it and marks the listener closed FOR GOOD - started     *)
(*   again it takes dials but Accept refuses ("listener is not active"); Close *)
(*   posts a token in a one-slot channel, so a second Close finds the slot     *)
(*   taken and never returns unless an Accept consumed the token in between.   *)
EXTENDS Integers, Sequences, TLC

CONSTANTS Kind, MaxOps

VARIABLES started,    \* Listen succeeded and no Close since
          everClosed, \* in-process: Close was called at least once
          token,      \* in-process: the one-slot "done" channel holds a token
          pend,       \* connections dialled and not yet accepted
          obs
vars == <<started, everClosed, token, pend, obs>>
Ev(op, res) == [k |-> "op", op |-> op, res |-> res]

Listen ==
  /\ IF started THEN obs' = Append(obs, Ev("listen", "err")) /\ UNCHANGED started
     ELSE started' = TRUE /\ obs' = Append(obs, Ev("listen", "ok"))
  /\ UNCHANGED <<everClosed, token, pend>>

Dial ==
  /\ IF started THEN pend' = pend + 1 /\ obs' = Append(obs, Ev("dial", "ok"))
     ELSE UNCHANGED pend /\ obs' = Append(obs, Ev("dial", "err"))
  /\ UNCHANGED <<started, everClosed, token>>

Accept ==
  /\ IF Kind = "inproc"
     THEN IF everClosed THEN obs' = Append(obs, Ev("accept", "err")) /\ UNCHANGED <<pend, token>>
          ELSE IF ~started THEN \* never listened, never closed: it just waits
                    obs' = Append(obs, Ev("accept", "timeout")) /\ UNCHANGED <<pend, token>>
          ELSE IF pend > 0 THEN pend' = pend - 1 /\ obs' = Append(obs, Ev("accept", "ok")) /\ UNCHANGED token
          ELSE obs' = Append(obs, Ev("accept", "timeout")) /\ UNCHANGED <<pend, token>>
     ELSE IF ~started THEN obs' = Append(obs, Ev("accept", "err")) /\ UNCHANGED <<pend, token>>
          ELSE IF pend > 0 THEN pend' = pend - 1 /\ obs' = Append(obs, Ev("accept", "ok")) /\ UNCHANGED token
          ELSE obs' = Append(obs, Ev("accept", "timeout")) /\ UNCHANGED <<pend, token>>
  /\ UNCHANGED <<started, everClosed>>

Close ==
  /\ IF Kind = "inproc"
     THEN IF token THEN obs' = Append(obs, Ev("close", "hang")) /\ UNCHANGED <<started, everClosed, token, pend>>
          ELSE /\ started' = FALSE /\ everClosed' = TRUE /\ token' = TRUE /\ pend' = 0
               /\ obs' = Append(obs, Ev("close", "ok"))
     ELSE IF started THEN /\ started' = FALSE /\ pend' = 0
                          \* (ws: the net listener is closed twice, by the listener and by the http server; now and
                          \*  then the second one reports "use of closed network connection": stopped all the same)
                          /\ obs' = Append(obs, Ev("close", IF Kind = "ws" THEN "ok|err" ELSE "ok"))
                          /\ UNCHANGED <<everClosed, token>>
          ELSE obs' = Append(obs, Ev("close", "err")) /\ UNCHANGED <<started, everClosed, token, pend>>

Hung == obs # <<>> /\ obs[Len(obs)].res = "hang"      \* the driver abandons the listener
Init == started = FALSE /\ everClosed = FALSE /\ token = FALSE /\ pend = 0 /\ obs = <<>>
Next == /\ Len(obs) < MaxOps /\ ~Hung
        /\ (Listen \/ Dial \/ Accept \/ Close)
Spec == Init /\ [][Next]_vars

-----------------------------------------------------------------------------
(* C18, listener part: once a listener was closed (and not started again) it takes no dial *)
(* and hands out no connection                                                            *)
L_Stops(o) ==
  \A i \in 1 .. Len(o) : (o[i].op \in {"dial", "accept"} /\ o[i].res = "ok") =>
     \E j \in 1 .. (i - 1) : /\ o[j].op = "listen" /\ o[j].res = "ok"
                             /\ \A m \in (j + 1) .. (i - 1) : ~(o[m].op = "close" /\ o[m].res \in {"ok", "ok|err", "err"})
P_L == L_Stops(obs)
TypeOK == pend \in 0 .. MaxOps
Terminal == Len(obs) = MaxOps \/ Hung
=============================================================================
