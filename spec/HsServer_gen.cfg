SPECIFICATION Spec
CONSTANTS
  MaxRT = 1
  Configs <- MCConfigs
  Tier = "tiny"
  FixNegotiateSingle = FALSE
  FixReleaseOnErr = FALSE
  FixCallbacksOnlyEstablished = FALSE
INVARIANTS TypeOK P_C03 P_C07 P_C09 P_C10 P_C06 P_C14
PROPERTIES A_Monotone A_EstablishOnlyByAuth
CHECK_DEADLOCK FALSE
