------------------------------ MODULE SrvProps ------------------------------
(* Property operators of the Server family (C18, C17, C20) over the history   *)
(* an application and its clients can observe:                                *)
(*  serving, arrive(s,l), hs(s,res), cbEst(s), dispatch(s,...), finished(s),  *)
(*  cbFin(s), gone(s), closecall, closeret, lasret(res), panic(res), end(res) *)
EXTENDS Integers, Sequences, FiniteSets

S0 == [k |-> "", s |-> "", l |-> "", res |-> "", a |-> "", b |-> "", n |-> 0]
Range(q) == {q[i] : i \in DOMAIN q}
Idx(o) == 1 .. Len(o)
HasEnd(o) == \E i \in Idx(o) : o[i].k = "end"
Crashed(o) == \E i \in Idx(o) : o[i].k = "panic" \/ (o[i].k = "end" /\ o[i].res = "crash")
At(o, k, s) == {i \in Idx(o) : o[i].k = k /\ o[i].s = s}
Sessions(o) == {o[i].s : i \in {j \in Idx(o) : o[j].k \in {"hs", "cbEst", "cbFin", "dispatch", "finished"}}}
Established(o, s) == \E i \in At(o, "hs", s) : o[i].res = "est"

C18_NoPanic(o) == \A i \in Idx(o) : o[i].k # "panic" /\ ~(o[i].k = "end" /\ o[i].res = "crash")

(* once Close has returned, the serve call returns the server-closed error *)
C18_ServeReturnsClosed(o) ==
  (HasEnd(o) /\ ~Crashed(o) /\ \E i \in Idx(o) : o[i].k = "closeret") =>
    \E i \in Idx(o) : o[i].k = "lasret" /\ o[i].res = "closed"

(* Established exactly once per session that reached the established state and only for *)
(* those, before any handler runs for it; Finished exactly once afterwards for the same  *)
C18_CallbacksExact(o) ==
  \A s \in Sessions(o) :
    /\ Cardinality(At(o, "cbEst", s)) <= 1 /\ Cardinality(At(o, "cbFin", s)) <= 1
    /\ \A i \in At(o, "cbEst", s) : \E j \in At(o, "hs", s) : j < i /\ o[j].res = "est"
    /\ \A i \in At(o, "dispatch", s) : \E j \in At(o, "cbEst", s) : j < i
    /\ \A i \in At(o, "cbFin", s) : /\ \E j \in At(o, "cbEst", s) : j < i
                                    /\ \A j \in At(o, "dispatch", s) : j < i
    /\ ((HasEnd(o) /\ ~Crashed(o) /\ Established(o, s)) =>
          Cardinality(At(o, "cbEst", s)) = 1 /\ Cardinality(At(o, "cbFin", s)) = 1)

(* every established session is finished so that its client observes it (unless it has gone away) *)
C18_AllFinished(o) ==
  (HasEnd(o) /\ ~Crashed(o)) => \A s \in Sessions(o) : Established(o, s) => (At(o, "finished", s) # {} \/ At(o, "gone", s) # {})

(* informational (no listed property says it): no client is left on a connection that was made and *)
(* never served - still in a listener's or the server's queue when Close came - and never closed   *)
X18_NoStranded(o) == \A i \in Idx(o) : o[i].k # "stranded"

(* nothing that serves is left behind *)
C18_NoLeak(o) == \A i \in Idx(o) : (o[i].k = "end" /\ o[i].res # "crash") => o[i].n = 0
=============================================================================
