------------------------------- MODULE MuxObs -------------------------------
(* Observed-history monitor of C20 (one "cfg" record with the handler table    *)
(* starts each case).                                                          *)
EXTENDS Integers, Sequences, TLC, Json, MuxProps
CONSTANTS TraceFile
Trace == ndJsonDeserialize(TraceFile)
VARIABLES l, caseN, cfg, obs
vars == <<l, caseN, cfg, obs>>
CatchAll == <<[pred |-> "nil", out |-> "ok"]>>
CfgOf(r) == [role |-> r.role, focus |-> r.focus,
             tab |-> [k \in {"msg", "not", "req", "resp"} |-> IF k = r.focus THEN r.hs ELSE CatchAll]]
NoCfg == [role |-> "", focus |-> "", tab |-> [k \in {"msg", "not", "req", "resp"} |-> <<>>]]
Ops(c, o) == << <<"C20_FirstMatch", C20_FirstMatch(c, o)>>, <<"C20_ErrorStops", C20_ErrorStops(c, o)>>,
                <<"C20_Continues", C20_Continues(c, o)>> >>
Report(n, c, o) ==
  LET ops == Ops(c, o)
  IN \A i \in 1 .. Len(ops) : ops[i][2] \/ PrintT(<<"BAD", n, ops[i][1]>>)
CaseEnds(i) == i = Len(Trace) \/ Trace[i + 1].k = "cfg"
Init == l = 1 /\ caseN = 0 /\ cfg = NoCfg /\ obs = <<>>
Next ==
  /\ l <= Len(Trace)
  /\ l' = l + 1
  /\ LET r == Trace[l] IN
     IF r.k = "cfg" THEN cfg' = CfgOf(r) /\ caseN' = r.n /\ obs' = <<>>
     ELSE obs' = Append(obs, r) /\ UNCHANGED <<cfg, caseN>>
  /\ (CaseEnds(l) => Report(caseN', cfg', obs'))
Spec == Init /\ [][Next]_vars
Consumed == TLCGet("stats").diameter - 1 = Len(Trace)
=============================================================================
