-------------------------------- MODULE Codec --------------------------------
(* The envelope codec as the specification sees it (envelope.go rawEnvelope,  *)
(* envelopeType, per-kind toRawEnvelope / populate; document.go, mediatype.go *)
(* UnmarshalDocument; command.go / message.go reply builders; node.go,        *)
(* identity.go, mediatype.go text forms).                                     *)
(*                                                                            *)
(* Four families of cases, each a tiny state machine  pick -> done  so that   *)
(* TLC enumerates the whole bounded domain, checks the model-level invariants *)
(* and prints every case with the outcome the model predicts:                 *)
(*   "rt"    C01  abstract well-formed envelope -> wire keys -> classify      *)
(*   "mut"   C02  wire tree with up to MaxDev deviations from a valid one     *)
(*   "reply" C11  request / message -> builder -> reply fields -> wire        *)
(*   "text"  C01  node / identity / media type text forms over a tiny alphabet *)
(* Toggles: FALSE = code as written, TRUE = repaired.                         *)
EXTENDS Integers, Sequences, FiniteSets, TLC

CONSTANTS Family, Tier, MaxDev,
          FixNilDoc,        \* C02: absent / null nested raw document -> error, not a nil dereference
          FixSender,        \* C11: Sender() = pp when present, else from
          FixResourceType   \* C11: a response built with a resource carries its type

VARIABLES phase, cs      \* cs = the case record
vars == <<phase, cs>>

Kinds == {"msg", "not", "req", "resp", "ses"}
NodeForms == {"", "full", "ident", "name", "dom"}     \* "dom": no name part (@domain/instance)
Methods == {"get", "set", "delete", "subscribe", "unsubscribe", "observe", "merge"}
Events == {"accepted", "dispatched", "received", "consumed", "failed"}
States == {"new", "negotiating", "authenticating", "established", "finishing", "finished", "failed"}
Auths == {"", "guest", "plain", "key", "transport", "external"}

(* documents: a spec is the nesting spelled outside-in, e.g. <<"cont","coll","text">> = a     *)
(* container holding a collection of text documents; n = number of collection items (-1 = nil) *)
Leafs == {"text", "json", "ping", "ujson", "utext", "chat"}
Doc(spec, n) == [spec |-> spec, n |-> n]
NoDoc == Doc(<<>>, 0)
LeafDocs == {Doc(<<l>>, 0) : l \in Leafs}
Nested2 == {<<"cont", l>> : l \in {"text", "json", "ping"}}
Nested3 == {<<"cont", "cont", "text">>, <<"cont", "coll", "text">>, <<"cont", "coll", "cont", "json">>}
ContDocs == {Doc(<<"cont">> \o c, 2) : c \in {<<l>> : l \in {"text", "json", "ping", "ujson", "utext"}} \cup Nested2 \cup
                                       (IF Tier = "thorough" THEN Nested3 ELSE {<<"cont", "coll", "text">>})}
CollDocs == {Doc(<<"coll">> \o c, n) : c \in {<<l>> : l \in {"text", "json", "ping"}} \cup Nested2, n \in {0, 1, 2}}
            \cup {Doc(<<"coll", "text">>, -1)}          \* nil item list
Docs == LeafDocs \cup ContDocs \cup CollDocs
D1(l) == Doc(<<l>>, 0)
D2(a, b) == Doc(<<a, b>>, 1)
D3(a, b, c) == Doc(<<a, b, c>>, 1)

(* ---------------------------------------------------------------- C01 ---- *)
Hdr(id, f, p, t, m) == [id |-> id, frm |-> f, pp |-> p, to |-> t, meta |-> m]
AllHdrs == {Hdr(i, f, p, t, m) : i \in {"", "x"}, f \in NodeForms, p \in NodeForms, t \in NodeForms, m \in {"", "y"}}
FewHdrs == {Hdr("x", "full", "", "ident", ""), Hdr("", "", "", "", ""), Hdr("x", "name", "full", "full", "y"),
            Hdr("x", "dom", "dom", "dom", "")}

B0 == [kind |-> "", doc |-> NoDoc, event |-> "", reason |-> "", method |-> "", uri |-> "", status |-> "",
       state |-> "", eopts |-> "", copts |-> "", sopts |-> "", enc |-> "", comp |-> "", auth |-> "", scheme |-> ""]
MsgBodies  == {[B0 EXCEPT !.kind = "msg", !.doc = d] : d \in Docs}
NotBodies  == {[B0 EXCEPT !.kind = "not", !.event = e, !.reason = r] : e \in Events, r \in {"", "y"}}
ReqBodies  == {[B0 EXCEPT !.kind = "req", !.method = m, !.uri = u, !.doc = d] :
                 m \in Methods, u \in {"rel", "abs"}, d \in {NoDoc} \cup LeafDocs \cup {D2("cont", "text"), Doc(<<"coll", "json">>, 2)}}
RespBodies == {[B0 EXCEPT !.kind = "resp", !.method = m, !.status = s, !.reason = r, !.doc = d] :
                 m \in Methods, s \in {"success", "failure"}, r \in {"", "y"},
                 d \in {NoDoc} \cup LeafDocs \cup {D2("cont", "json"), Doc(<<"coll", "text">>, 1)}}
SesBodies  == {[B0 EXCEPT !.kind = "ses", !.state = s, !.reason = r] : s \in States, r \in {"", "y"}}
              \cup {[B0 EXCEPT !.kind = "ses", !.state = "negotiating", !.eopts = e, !.copts = c] :
                      e \in {"", "none,tls", "tls"}, c \in {"", "none", "none,gzip"}}
              \cup {[B0 EXCEPT !.kind = "ses", !.state = "negotiating", !.enc = e, !.comp = c] :
                      e \in {"", "none", "tls"}, c \in {"", "none", "gzip"}}
              \cup {[B0 EXCEPT !.kind = "ses", !.state = "authenticating", !.sopts = o, !.auth = a,
                               !.scheme = IF a = "" THEN sc ELSE a] :
                      o \in {"", "guest,plain", "transport"}, a \in Auths, sc \in {"", "plain"}}
Bodies == MsgBodies \cup NotBodies \cup ReqBodies \cup RespBodies \cup SesBodies
OneBodyPerKind == {[B0 EXCEPT !.kind = "msg", !.doc = D1("text")],
                   [B0 EXCEPT !.kind = "not", !.event = "failed", !.reason = "y"],
                   [B0 EXCEPT !.kind = "req", !.method = "get", !.uri = "rel"],
                   [B0 EXCEPT !.kind = "resp", !.method = "set", !.status = "failure", !.reason = "y",
                              !.doc = D1("json")],
                   [B0 EXCEPT !.kind = "ses", !.state = "authenticating", !.auth = "plain", !.scheme = "plain"]}
(* header fully varied over a representative body, body fully varied over a few headers *)
RtCases == {[h |-> h, b |-> b] : h \in AllHdrs, b \in OneBodyPerKind}
           \cup {[h |-> h, b |-> b] : h \in FewHdrs, b \in Bodies}

(* the wire keys an envelope encodes to (omitempty: only non-zero values) *)
Keys(e) ==
  LET h == e.h b == e.b IN
  (IF h.id # "" THEN {"id"} ELSE {}) \cup (IF h.frm # "" THEN {"from"} ELSE {}) \cup
  (IF h.pp # "" THEN {"pp"} ELSE {}) \cup (IF h.to # "" THEN {"to"} ELSE {}) \cup
  (IF h.meta # "" THEN {"metadata"} ELSE {}) \cup
  (IF b.kind = "msg" THEN {"type", "content"} ELSE {}) \cup
  (IF b.event # "" THEN {"event"} ELSE {}) \cup (IF b.reason # "" THEN {"reason"} ELSE {}) \cup
  (IF b.method # "" THEN {"method"} ELSE {}) \cup (IF b.uri # "" THEN {"uri"} ELSE {}) \cup
  (IF b.status # "" THEN {"status"} ELSE {}) \cup
  (IF b.kind \in {"req", "resp"} /\ b.doc # NoDoc THEN {"type", "resource"} ELSE {}) \cup
  (IF b.state # "" THEN {"state"} ELSE {}) \cup
  (IF b.eopts # "" THEN {"encryptionOptions"} ELSE {}) \cup (IF b.copts # "" THEN {"compressionOptions"} ELSE {}) \cup
  (IF b.sopts # "" THEN {"schemeOptions"} ELSE {}) \cup (IF b.enc # "" THEN {"encryption"} ELSE {}) \cup
  (IF b.comp # "" THEN {"compression"} ELSE {}) \cup (IF b.scheme # "" THEN {"scheme"} ELSE {}) \cup
  (IF b.auth # "" THEN {"authentication"} ELSE {})

(* rawEnvelope.envelopeType: the decision list, in its order *)
Classify(K) ==
  IF "method" \in K /\ "uri" \in K THEN "req"
  ELSE IF "method" \in K /\ "status" \in K THEN "resp"
  ELSE IF "event" \in K THEN "not"
  ELSE IF "content" \in K THEN "msg"
  ELSE IF "state" \in K THEN "ses"
  ELSE "none"

(* ---------------------------------------------------------------- C02 ---- *)
(* A wire tree is a function from the field paths of a valid encoding to a   *)
(* shape.  "ok" = the valid value; deviations: absent, null, and each wrong  *)
(* JSON type.  Nested documents contribute the paths of their own fields.    *)
Shapes == {"ok", "abs", "null", "str", "empty", "num", "neg", "bool", "obj", "arr"}   \* "empty" = the empty string, "neg" = a negative number
(* base encodings: one per kind and document shape *)
MutBases ==
  {[h |-> Hdr("x", "full", "full", "ident", "y"), b |-> b] :
     b \in {[B0 EXCEPT !.kind = "msg", !.doc = d] :
              d \in {D1("text"), D1("json"), D2("cont", "text"), D3("cont", "cont", "json"),
                     Doc(<<"coll", "text">>, 2), Doc(<<"coll", "cont", "text">>, 1), D1("ping")}}
           \cup {[B0 EXCEPT !.kind = "not", !.event = "failed", !.reason = "y"],
                 [B0 EXCEPT !.kind = "req", !.method = "set", !.uri = "rel", !.doc = D2("cont", "json")],
                 [B0 EXCEPT !.kind = "resp", !.method = "get", !.status = "failure", !.reason = "y",
                            !.doc = Doc(<<"coll", "json">>, 1)],
                 [B0 EXCEPT !.kind = "ses", !.state = "authenticating", !.auth = "plain", !.scheme = "plain"],
                 [B0 EXCEPT !.kind = "ses", !.state = "negotiating", !.eopts = "none,tls", !.copts = "none"]}}

(* paths (tuples of keys) inside a document held by the raw value at path p *)
RECURSIVE DocPathsS(_, _)
DocPathsS(p, spec) ==
  IF spec = <<>> THEN {}
  ELSE IF Head(spec) = "cont"
  THEN {p \o <<"type">>, p \o <<"value">>} \cup DocPathsS(p \o <<"value">>, Tail(spec))
  ELSE IF Head(spec) = "coll"
  THEN {p \o <<"itemType">>, p \o <<"items">>, p \o <<"items", "0">>, p \o <<"total">>} \cup DocPathsS(p \o <<"items", "0">>, Tail(spec))
  ELSE {}
DocSpec(d) == d.spec
Paths(e) ==
  LET K == Keys(e)
      dkey == IF e.b.kind = "msg" THEN "content" ELSE "resource"
  IN {<<k>> : k \in K} \cup (IF e.b.doc # NoDoc THEN DocPathsS(<<dkey>>, DocSpec(e.b.doc)) ELSE {})
     \cup (IF "reason" \in K THEN {<<"reason", "code">>, <<"reason", "description">>} ELSE {})
     \cup (IF "authentication" \in K THEN {<<"authentication", "password">>} ELSE {})
     \cup (IF "metadata" \in K THEN {<<"metadata", "k">>} ELSE {})

(* how the Go target of a path reacts to a shape: "set" | "unset" | "err"    *)
(* (encoding/json: null leaves values untouched / nils pointers; a JSON type *)
(* the target cannot take is an error; raw sub-messages capture anything)    *)
Last(p) == p[Len(p)]
IsRaw(p) == Last(p) \in {"content", "resource", "value", "0", "authentication"}
TextLike(p) == Last(p) \in {"id", "from", "pp", "to", "uri", "encryption", "compression", "scheme",
                            "description", "password", "k"}
EnumLike(p) == Last(p) \in {"event", "method", "state", "status", "type", "itemType"}   \* a string the target validates
ListLike(p) == Last(p) \in {"encryptionOptions", "compressionOptions", "schemeOptions", "items"}
ObjLike(p)  == Last(p) \in {"metadata", "reason"}
React(p, s) ==
  IF s \in {"abs", "null"} THEN "unset"
  ELSE IF s = "ok" THEN "set"
  ELSE IF IsRaw(p) THEN "set"                                  \* checked by the document decode below
  ELSE IF TextLike(p) THEN (IF s \in {"str", "empty"} THEN "set" ELSE "err")
  ELSE IF EnumLike(p) THEN "err"                               \* "str" here = a string the type rejects
  ELSE IF Last(p) \in {"code", "total"} THEN (IF s \in {"num", "neg"} THEN "set" ELSE "err")   \* (the count of a collection is informational)
  ELSE IF ListLike(p) THEN (IF s = "arr" THEN "set" ELSE "err")   \* "arr" = empty array
  ELSE IF ObjLike(p) THEN (IF s = "obj" THEN "set" ELSE "err")    \* "obj" = empty object
  ELSE "err"

(* ---------------------------------------------------------------- C11 ---- *)
(* reqres = "y": the request carries a resource (and type) of its own, of another media type than the reply's *)
ReqCases == {[id |-> i, frm |-> f, pp |-> p, to |-> t, method |-> m, builder |-> b, doc |-> d, reason |-> r, reqres |-> q] :
               i \in {"", "x"}, f \in {"", "full", "name"}, p \in {"", "full", "ident"}, t \in {"", "full"}, m \in Methods,
               b \in {"success", "successRes", "failure"},
               d \in {D1("ping"), D1("text"), D1("json"), D2("cont", "text"), Doc(<<"coll", "json">>, 1)},
               r \in {"", "y"}, q \in {"", "y"}}
MsgCases == {[id |-> i, frm |-> f, pp |-> p, to |-> t, method |-> e, builder |-> b, doc |-> NoDoc, reason |-> r, reqres |-> ""] :
               i \in {"", "x"}, f \in {"", "full", "name"}, p \in {"", "full", "ident"}, t \in {"", "full"}, e \in Events,
               b \in {"notification", "failedNotification"}, r \in {"", "y"}}
ReplyCases == {c \in ReqCases : (c.builder = "successRes" \/ c.doc = D1("ping"))
                                /\ (c.builder = "failure" \/ c.reason = "")
                                /\ (c.reqres = "y" => (c.id = "x" /\ c.frm = "full" /\ c.to = "full"))}
              \cup {c \in MsgCases : (c.builder = "failedNotification" \/ c.reason = "")
                                     /\ (c.builder = "notification" \/ c.method = "failed")}
Sender(c) == IF FixSender THEN (IF c.pp # "" THEN "pp" ELSE IF c.frm # "" THEN "from" ELSE "")
             ELSE (IF c.pp = "" THEN "" ELSE IF c.frm # "" THEN "from" ELSE "")   \* as written: inverted
ReplyOf(c) ==
  [id |-> c.id, to |-> Sender(c), frm |-> IF c.to # "" THEN "to" ELSE "",
   method |-> c.method,
   status |-> CASE c.builder \in {"success", "successRes"} -> "success" [] c.builder = "failure" -> "failure" [] OTHER -> "",
   reason |-> IF c.builder \in {"failure", "failedNotification"} THEN c.reason ELSE "",
   res |-> IF c.builder = "successRes" THEN DocSpec(c.doc) ELSE <<>>,
   rtype |-> IF c.builder = "successRes" /\ FixResourceType THEN "y" ELSE "",
   (* does the peer accept the encoded reply? a resource without a type is refused *)
   wire |-> IF c.builder = "successRes" /\ ~FixResourceType THEN "err" ELSE "ok"]

(* --------------------------------------------------------------- text ---- *)
Alpha == {"a", "B", "@", "/", "+"}
Strs(n) == UNION {[1 .. k -> Alpha] : k \in 0 .. n}
RECURSIVE Str(_)
Str(s) == IF s = <<>> THEN "" ELSE s[1] \o Str(Tail(s))   \* sequences of 1-char strings -> string
(* grammar transcriptions work on sequences of characters *)
RECURSIVE SplitAt(_, _)
SplitAt(s, ch) ==       \* strings.Split: list of pieces
  IF \A i \in 1 .. Len(s) : s[i] # ch THEN <<s>>
  ELSE LET i == CHOOSE j \in 1 .. Len(s) : s[j] = ch /\ \A k \in 1 .. (j - 1) : s[k] # ch
       IN <<SubSeq(s, 1, i - 1)>> \o SplitAt(SubSeq(s, i + 1, Len(s)), ch)
ParseIdentity(s) == LET v == SplitAt(s, "@") IN [name |-> v[1], domain |-> IF Len(v) > 1 THEN v[2] ELSE <<>>]
IdentityStr(i) == IF i.name = <<>> /\ i.domain = <<>> THEN <<>>
                  ELSE IF i.domain = <<>> THEN i.name ELSE i.name \o <<"@">> \o i.domain
ParseNode(s) == LET v == SplitAt(s, "/") i == ParseIdentity(v[1])
                IN [name |-> i.name, domain |-> i.domain, inst |-> IF Len(v) > 1 THEN v[2] ELSE <<>>]
NodeStr(n) == IF n.name = <<>> /\ n.domain = <<>> /\ n.inst = <<>> THEN <<>>
              ELSE IF n.inst = <<>> THEN IdentityStr(n) ELSE IdentityStr(n) \o <<"/">> \o n.inst
ParseMedia(s) == LET p == SplitAt(s, "+") v == SplitAt(p[1], "/")
                 IN IF Len(v) = 1 THEN [ok |-> FALSE, t |-> <<>>, st |-> <<>>, sx |-> <<>>]
                    ELSE [ok |-> TRUE, t |-> v[1], st |-> v[2], sx |-> IF Len(p) > 1 THEN p[2] ELSE <<>>]
MediaStr(m) == IF m.t = <<>> /\ m.st = <<>> /\ m.sx = <<>> THEN <<>>
               ELSE IF m.sx = <<>> THEN m.t \o <<"/">> \o m.st ELSE m.t \o <<"/">> \o m.st \o <<"+">> \o m.sx
Free(s, R) == \A i \in 1 .. Len(s) : s[i] \notin R
(* the values whose parts avoid the separators the grammar reserves *)
Parts(n) == {s \in Strs(n) : TRUE}
TextCases ==
  LET P == Strs(IF Tier = "thorough" THEN 2 ELSE 1) IN
  {[form |-> "node", a |-> Str(x), b |-> Str(y), c |-> Str(z),
    str |-> Str(NodeStr([name |-> x, domain |-> y, inst |-> z])),
    back |-> LET n == ParseNode(NodeStr([name |-> x, domain |-> y, inst |-> z])) IN <<Str(n.name), Str(n.domain), Str(n.inst)>>,
    wf |-> Free(x, {"@", "/"}) /\ Free(y, {"@", "/"}) /\ Free(z, {"/"})] : x \in P, y \in P, z \in P}
  \cup
  {[form |-> "media", a |-> Str(x), b |-> Str(y), c |-> Str(z),
    str |-> Str(MediaStr([t |-> x, st |-> y, sx |-> z])),
    back |-> LET m == ParseMedia(MediaStr([t |-> x, st |-> y, sx |-> z])) IN
             IF m.ok THEN <<Str(m.t), Str(m.st), Str(m.sx)>> ELSE <<"!", "!", "!">>,
    wf |-> /\ Free(x, {"/", "+"}) /\ Free(y, {"/", "+"}) /\ Free(z, {"+"}) /\ x # <<>> /\ y # <<>>] : x \in P, y \in P, z \in P}

-----------------------------------------------------------------------------
(* model-level outcome of decoding a wire tree: "ok" | "err" | "panic"       *)
Sh(dev, p) == IF p \in DOMAIN dev THEN dev[p] ELSE "ok"
Present(dev, p) == Sh(dev, p) \notin {"abs", "null"}

RECURSIVE DocOutcome(_, _, _)
DocOutcome(p, spec, dev) ==     \* p: path of the raw value holding a document of shape `spec`
  LET sh == Sh(dev, p) IN
  IF sh = "null" \/ (sh = "abs" /\ Last(p) # "0")
  THEN (IF FixNilDoc THEN "err" ELSE "panic")       \* *d dereferenced in UnmarshalDocument
  ELSE IF sh = "abs" THEN "ok"                      \* a removed collection item
  ELSE IF Head(spec) = "cont"
  THEN IF sh # "ok" THEN "err"
       ELSE IF React(p \o <<"type">>, Sh(dev, p \o <<"type">>)) # "set" THEN "err"
       ELSE DocOutcome(p \o <<"value">>, Tail(spec), dev)
  ELSE IF Head(spec) = "coll"
  THEN IF sh # "ok" THEN "err"
       ELSE IF React(p \o <<"itemType">>, Sh(dev, p \o <<"itemType">>)) # "set" THEN "err"
       ELSE IF React(p \o <<"total">>, Sh(dev, p \o <<"total">>)) = "err" THEN "err"     \* (absent or null: fine)
       ELSE LET ish == Sh(dev, p \o <<"items">>) IN
            IF ish \in {"abs", "null", "arr"} THEN "ok"               \* no items to decode
            ELSE IF ish # "ok" THEN "err"
            ELSE DocOutcome(p \o <<"items", "0">>, Tail(spec), dev)
  ELSE  \* leaf: text wants a string, the json-like ones an object
       IF sh = "ok" THEN "ok"
       ELSE IF Head(spec) \in {"text", "utext"} THEN (IF sh \in {"str", "empty"} THEN "ok" ELSE "err")
       ELSE (IF sh = "obj" THEN "ok" ELSE "err")

(* fields json.Unmarshal decodes eagerly into rawEnvelope, whatever the kind *)
Eager(p) == p[1] \notin {"content", "resource", "authentication"}
AncestorsOk(dev, p) == \A i \in 1 .. (Len(p) - 1) : Sh(dev, SubSeq(p, 1, i)) = "ok"
MutOutcome(e, dev) ==
  LET K == {k \in Keys(e) : Present(dev, <<k>>)}
      kind == Classify(K)
      eagerErr == \E p \in DOMAIN dev : Eager(p) /\ AncestorsOk(dev, p) /\ React(p, dev[p]) = "err"
  IN IF eagerErr THEN "err"
     ELSE IF kind = "none" THEN "err"
     ELSE CASE kind = "msg" -> IF ~Present(dev, <<"type">>) \/ ~Present(dev, <<"content">>) THEN "err"
                               ELSE IF e.b.kind # "msg" THEN "err"
                               ELSE DocOutcome(<<"content">>, DocSpec(e.b.doc), dev)
            [] kind \in {"req", "resp"} ->
                 IF "resource" \in K
                 THEN (IF ~Present(dev, <<"type">>) THEN "err" ELSE DocOutcome(<<"resource">>, DocSpec(e.b.doc), dev))
                 ELSE "ok"
            [] kind = "ses" -> IF "authentication" \in K /\ ~Present(dev, <<"scheme">>) THEN "err"
                               ELSE IF "authentication" \in K /\ Sh(dev, <<"scheme">>) \in {"str", "empty"} THEN "err"  \* no factory for it
                               ELSE IF "authentication" \in K /\ Sh(dev, <<"authentication">>) \notin {"ok", "obj"} THEN "err"
                               ELSE IF "authentication" \in K /\ Sh(dev, <<"authentication">>) = "ok"
                                       /\ Sh(dev, <<"authentication", "password">>) \notin {"ok", "abs", "null", "str", "empty"} THEN "err"
                               ELSE "ok"
            [] OTHER -> "ok"

(* (a deviation below a node that deviates itself is not a case: the node has been replaced) *)
StrictPrefix(a, b) == Len(a) < Len(b) /\ SubSeq(b, 1, Len(a)) = a
Devs(e, n) == UNION {[S -> Shapes \ {"ok"}] : S \in {T \in SUBSET Paths(e) : /\ Cardinality(T) <= n /\ Cardinality(T) >= 1
                                                                             /\ \A a, b \in T : ~StrictPrefix(a, b)}}

-----------------------------------------------------------------------------
Cases ==
  CASE Family = "rt" -> {[fam |-> "rt", e |-> c, pred |-> Classify(Keys(c))] : c \in RtCases}
    [] Family = "mut" -> UNION {{[fam |-> "mut", e |-> b, dev |-> {[path |-> q, shape |-> d[q]] : q \in DOMAIN d},
                                   pred |-> MutOutcome(b, d)] : d \in Devs(b, MaxDev)} : b \in MutBases}
    [] Family = "reply" -> {[fam |-> "reply", c |-> c, pred |-> ReplyOf(c)] : c \in ReplyCases}
    [] OTHER -> {[fam |-> "text", c |-> c] : c \in TextCases}

Init == phase = "pick" /\ cs \in Cases
Next == phase = "pick" /\ phase' = "done" /\ UNCHANGED cs
Spec == Init /\ [][Next]_vars
Terminal == phase = "done"

(* model-level invariants *)
I_Classify == cs.fam = "rt" => cs.pred = cs.e.b.kind
I_NoPanic  == cs.fam = "mut" => cs.pred # "panic"
I_Reply    == cs.fam = "reply" =>
                /\ cs.pred.to = (IF cs.c.pp # "" THEN "pp" ELSE IF cs.c.frm # "" THEN "from" ELSE "")
                /\ cs.pred.wire = "ok"
                /\ (cs.pred.res # <<>> => cs.pred.rtype = "y")
I_Text     == cs.fam = "text" => (cs.c.wf => cs.c.back = <<cs.c.a, cs.c.b, cs.c.c>>)
=============================================================================
