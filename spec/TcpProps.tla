------------------------------ MODULE TcpProps ------------------------------
(* Property operators of the TCP byte-path family (C12, C16): functions of a *)
(* configuration record [lens, U, L, faultfree] and of the observation       *)
(* history only, evaluated by TLC on the TcpStream model and on histories    *)
(* recorded from the real transport (TcpObs).                                *)
EXTENDS Integers, Sequences, FiniteSets

T0 == [k |-> "", env |-> 0, res |-> "", used |-> 0, asked |-> 0, segs |-> <<>>]     \* asked: the largest single read a receive requested

EnvsOf(obs, kind, res) ==
  LET s == SelectSeq(obs, LAMBDA e : e.k = kind /\ e.res = res)
  IN [i \in 1 .. Len(s) |-> s[i].env]
SentOk(obs) == EnvsOf(obs, "send", "ok")
RecvOk(obs) == EnvsOf(obs, "recv", "ok")
IsPrefix(a, b) == Len(a) <= Len(b) /\ \A i \in 1 .. Len(a) : a[i] = b[i]
BLenC(c, k) == c.U * c.lens[k] + 1

(* C12: what Receive yields is a prefix of what was handed to Send, in order: *)
(* nothing corrupted, duplicated, reordered or fabricated.  (An envelope      *)
(* whose Send reported an error may still have reached the peer intact: the   *)
(* error was reported, so that is not a loss of integrity.)                   *)
Attempted(obs) ==
  LET s == SelectSeq(obs, LAMBDA e : e.k = "send") IN [i \in 1 .. Len(s) |-> s[i].env]
C12_StreamIntegrity(c, obs) == IsPrefix(RecvOk(obs), Attempted(obs))

(* C12: without a hard fault or a cut (only fragmentation, coalescing, short *)
(* writes / reads with temporary timeouts, stalls, an orderly end of stream) *)
(* every Send succeeds and the receiver yields exactly the sent sequence     *)
AllFit(c) == c.L = 0 \/ \A k \in 1 .. Len(c.lens) : BLenC(c, k) <= c.L
C12_NoSilentLoss(c, obs) ==
  (c.faultfree = "y" /\ AllFit(c)) =>
    /\ \A i \in 1 .. Len(obs) : obs[i].k = "send" => obs[i].res = "ok"
    /\ RecvOk(obs) = SentOk(obs)

(* C12: the bytes the connection accepted are the encodings of the envelopes *)
(* reported as sent, in order, plus at most a prefix of one whose Send failed *)
(* the byte path never panics *)
C12_NoPanic(obs) == \A i \in 1 .. Len(obs) : obs[i].k # "panic"
C12_WireClean(c, obs) ==
  \A i \in 1 .. Len(obs) : obs[i].k = "wire" =>
    LET so == SentOk(obs)
        full == [j \in 1 .. Len(so) |-> <<so[j], 0, BLenC(c, so[j])>>]
        w == obs[i].segs
    IN \/ w = full
       \/ /\ Len(w) = Len(full) + 1 /\ SubSeq(w, 1, Len(full)) = full
          /\ \E j \in 1 .. Len(obs) : /\ obs[j].k = "send" /\ obs[j].res = "err"
                                      /\ w[Len(w)][1] = obs[j].env
          /\ w[Len(w)][2] = 0 /\ w[Len(w)][3] < BLenC(c, w[Len(w)][1])

(* C16: no single receive takes more than the read limit from the connection *)
C16_PerReceiveBudget(c, obs) ==
  c.L > 0 => \A i \in 1 .. Len(obs) : obs[i].k = "recv" => (obs[i].used <= c.L /\ obs[i].asked <= c.L)

(* C16: an envelope larger than twice the limit is never accepted *)
C16_RejectHuge(c, obs) ==
  c.L > 0 => \A i \in 1 .. Len(obs) :
    (obs[i].k = "recv" /\ obs[i].res = "ok") => BLenC(c, obs[i].env) <= 2 * c.L

(* C16: an envelope within the limit is accepted whatever preceded it *)
C16_AcceptSmall(c, obs) ==
  (c.L > 0 /\ c.faultfree = "y") =>
    \A k \in 1 .. Len(c.lens) :
      (/\ BLenC(c, k) <= c.L
       /\ \A j \in 1 .. (k - 1) : \E i \in 1 .. Len(RecvOk(obs)) : RecvOk(obs)[i] = j)
        => \E i \in 1 .. Len(RecvOk(obs)) : RecvOk(obs)[i] = k
=============================================================================
