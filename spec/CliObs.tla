------------------------------- MODULE CliObs -------------------------------
(* Observed-history monitor of C19: a real Client against a scripted server.   *)
(*   session(n)  pushed(tag)  delivered(tag)  fault(res = kind)                *)
(*   rate(n = listener iterations in a 250 ms window)  send(tag, res)          *)
(*   recv(tag)  end                                                            *)
EXTENDS Integers, Sequences, TLC, Json
CONSTANTS TraceFile
Trace == ndJsonDeserialize(TraceFile)
VARIABLES l, caseN, obs
vars == <<l, caseN, obs>>
Idx(o) == 1 .. Len(o)
(* after every fault a fresh session is opened and an envelope pushed on it reaches a handler *)
C19_Recovers(o) ==
  \A i \in Idx(o) : (o[i].k = "fault" /\ o[i].res # "vanish") =>      \* ("vanish": the server is not reachable any more)
    \E j \in (i + 1) .. Len(o) : /\ o[j].k = "session"
       /\ \E p \in (j + 1) .. Len(o) : o[p].k = "pushed" /\
            \E d \in (p + 1) .. Len(o) : o[d].k = "delivered" /\ o[d].tag = o[p].tag
(* the background listener never busy-loops: at most 1000 iterations per second *)
C19_NoSpin(o) == /\ \A i \in Idx(o) : o[i].k = "rate" => o[i].n <= 250
                 \* a server that turns the client away for 1.2 s is not hammered with handshakes meanwhile
                 /\ \A i \in Idx(o) : o[i].k = "attempts" => o[i].n <= 200
(* a send reports success only if the envelope was written to an established session.  What a *)
(* server observes of that: the send made after everything settled is received; and of the     *)
(* sends made on the first session before the fault the received ones are a prefix in send     *)
(* order (what was written last may be lost unread with the connection, but a success that was *)
(* never written would leave a gap)                                                            *)
FirstFault(o) == LET F == {i \in Idx(o) : o[i].k = "fault"} IN
                 IF F = {} THEN Len(o) + 1 ELSE CHOOSE i \in F : \A j \in F : i <= j
RcvdTags(o) == {o[j].tag : j \in {n \in Idx(o) : o[n].k = "recv"}}
C19_SendTruth(o) ==
  LET R == RcvdTags(o)
      P == {i \in Idx(o) : i < FirstFault(o) /\ o[i].k = "send" /\ o[i].res = "ok"}
      G == {i \in P : o[i].tag \in R}
  IN /\ \A i \in Idx(o) : (o[i].k = "send" /\ o[i].res = "ok" /\ o[i].tag = "u-after") => o[i].tag \in R
     /\ \A i \in P : (\E j \in G : i < j) => i \in G
(* a client operation returns once its context has ended, whatever happened to the session *)
C19_Responsive(o) == \A i \in Idx(o) : o[i].k = "send" => o[i].res # "hang"
(* C11: the built-in ping auto-reply of a builder-made client is a valid, correlated response *)
C11_PingReply(o) == \A i \in Idx(o) : o[i].k = "pingreply" => o[i].res = "ok"
(* a builder-made Server with the ping auto-reply and a request handler of its own: a request that is not a *)
(* ping reaches the application's handler exactly once and nobody else answers it (C04); a request without   *)
(* uri does not bring the server down (C02)                                                                  *)
C04_SrvOwnHandler(o) == \A i \in Idx(o) : o[i].k = "srvown" => o[i].res = "ok"
C02_SrvSurvives(o) == \A i \in Idx(o) : (o[i].k = "srvalive" => o[i].res = "y") /\ o[i].k # "panic"
(* C17: several sessions pinging a builder-made server at once each get their own replies *)
C17_SrvPingIsolated(o) == \A i \in Idx(o) : o[i].k = "srvstorm" => o[i].res = "own"
(* C08: nothing a server says during the handshake brings the client's process down *)
C08_ClientNoPanic(o) == \A i \in Idx(o) : o[i].k # "panic"
(* C08 at the level of the Client: Establish reports success only when a session was really *)
(* established (the first connection of these cases is answered with another state)          *)
C08_ClientTruthful(o) ==
  \A i \in Idx(o) : (o[i].k = "hlret" /\ o[i].res = "nil") => \E j \in 1 .. (i - 1) : o[j].k = "session"
(* C13 at the high-level client: it closes the channels it replaces and the one it ends with, so *)
(* that the server sees every connection of the client released                                 *)
C13_ClientReleases(o) ==
  (\E i \in Idx(o) : o[i].k = "end" /\ o[i].res = "closed") =>
     \A i \in Idx(o) : o[i].k = "session" => \E j \in Idx(o) : o[j].k = "released" /\ o[j].n = o[i].n
(* closing the client ends its listener, also when it holds no channel at that moment (C13: nothing left behind) *)
C13_ClientListenerEnds(o) == \A i \in Idx(o) : o[i].k = "listener" => o[i].res = "gone"
C19_Closes(o) == \A i \in Idx(o) : o[i].k = "end" => o[i].res = "closed"
Ops(o) == << <<"C19_Recovers", C19_Recovers(o)>>, <<"C19_NoSpin", C19_NoSpin(o)>>,
             <<"C19_SendTruth", C19_SendTruth(o)>>, <<"C19_Closes", C19_Closes(o)>>,
             <<"C13_ClientReleases", C13_ClientReleases(o)>>, <<"C13_ClientListenerEnds", C13_ClientListenerEnds(o)>>, <<"C08_ClientTruthful", C08_ClientTruthful(o)>>,
             <<"C19_Responsive", C19_Responsive(o)>>, <<"C11_PingReply", C11_PingReply(o)>>,
             <<"C08_ClientNoPanic", C08_ClientNoPanic(o)>>,
             <<"C04_SrvOwnHandler", C04_SrvOwnHandler(o)>>, <<"C02_SrvSurvives", C02_SrvSurvives(o)>>,
             <<"C17_SrvPingIsolated", C17_SrvPingIsolated(o)>> >>
Report(n, o) ==
  LET ops == Ops(o)
  IN \A i \in 1 .. Len(ops) : ops[i][2] \/ PrintT(<<"BAD", n, ops[i][1]>>)
CaseEnds(i) == i = Len(Trace) \/ Trace[i + 1].k = "cfg"
Init == l = 1 /\ caseN = 0 /\ obs = <<>>
Next ==
  /\ l <= Len(Trace)
  /\ l' = l + 1
  /\ LET r == Trace[l] IN
     IF r.k = "cfg" THEN caseN' = r.n /\ obs' = <<>>
     ELSE obs' = Append(obs, r) /\ UNCHANGED caseN
  /\ (CaseEnds(l) => Report(caseN', obs'))
Spec == Init /\ [][Next]_vars
Consumed == TLCGet("stats").diameter - 1 = Len(Trace)
=============================================================================
