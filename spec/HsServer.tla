------------------------------ MODULE HsServer ------------------------------
(* Server side of the lime session handshake, shaped like the Go code:      *)
(*   server_channel.go  EstablishSession / negotiateSession /               *)
(*                      authenticateSession / FailSession / FinishSession   *)
(*   server.go          handleChannel (flavour "server")                    *)
(* against a raw, scripted client that may send anything.  One TLA+ action  *)
(* per protocol step of the linear driver; every emission, callback,        *)
(* closure and return is appended to the observation history `obs` in the   *)
(* order a step-wise peer observes it.                                      *)
(*                                                                          *)
(* Deviation toggles (DESIGN 3.9): FALSE = the code as it was written,      *)
(* TRUE = the repaired code.                                                *)
EXTENDS Integers, Sequences, FiniteSets, TLC, HsProps

CONSTANTS MaxRT,                        \* bound on authentication round trips
          Configs,                      \* configurations explored
          FixNegotiateSingle,           \* C10: negotiate towards a single option that is not in force
          FixReleaseOnErr,              \* C14: Server releases the connection on a handshake error
          FixCallbacksOnlyEstablished   \* C14/C18: callbacks only for sessions that were established

VARIABLES cfg,      \* [tk, enc, comp, schemes, flavour]
          pc,       \* what the server-side driver waits for
          sState,   \* channel state (channel.go: state)
          open,     \* server side of the connection not closed by the server
          tenc,     \* transport encryption in force on the server side
          rt,       \* round trips so far
          fed,      \* post-phase budget
          obs
vars == <<cfg, pc, sState, open, tenc, rt, fed, obs>>

Wire == IF tenc = "tls" THEN "tls" ELSE "clear"
Ev(k) == [E0 EXCEPT !.k = k]
In(kind) == [E0 EXCEPT !.k = "in", !.kind = kind]
Ses(st, id) == [E0 EXCEPT !.k = "in", !.kind = "ses", !.st = st, !.id = id]
Out(st) == [E0 EXCEPT !.k = "out", !.kind = "ses", !.st = st, !.id = "right",
                      !.frm = "srv", !.wire = Wire]
OtherStates(s) == {x \in {"new", "negotiating", "authenticating", "established",
                          "finishing", "finished", "failed"} : x # s}
Noise == {In(x) : x \in {"msg", "not", "req", "resp", "garbage", "junk", "eof", "hybrid"}}
         \* "hybrid": a message that also carries a `state` member (it is a message: what it carries decides the kind)

FirstSyms  == {Ses("new", "none"), Ses("new", "wrong")}
              \cup {Ses(s, "none") : s \in OtherStates("new")} \cup Noise
ChoiceSyms == {[Ses("negotiating", i) EXCEPT !.enc = e, !.comp = c] :
                 i \in {"right", "wrong", "none"}, e \in {"", "none", "tls", "bogus"},
                 c \in {"", "none", "gzip"}}
              \* out-of-order state with an otherwise acceptable choice: fails that check alone
              \cup {[Ses(s, "right") EXCEPT !.enc = "none", !.comp = "none"] : s \in OtherStates("negotiating")}
              \* the choice of tls with credentials pipelined behind it in the same cleartext write: what was sent
              \* before the upgrade is not part of the upgraded conversation (the server never looks at it)
              \cup {[Ses("negotiating", "right") EXCEPT !.enc = "tls", !.comp = "none", !.res = "pipe"]}
              \cup Noise
UpgradeSyms == {In("tlsup"), Ses("negotiating", "right"), In("eof")}
CredSyms   == {[Ses("authenticating", i) EXCEPT !.scheme = s, !.ident = ic[1], !.cred = ic[2]] :
                 i \in {"right", "wrong", "none"}, s \in {"plain", "key", "external"},
                 ic \in {<<"a", "p">>, <<"b", "q">>}}
              \cup {[Ses("authenticating", i) EXCEPT !.scheme = s, !.ident = d, !.cred = "e"] :
                 i \in {"right", "wrong", "none"}, s \in {"guest", "transport"}, d \in {"a", "b"}}
              \* guest credentials without any identity (no `from`)
              \cup {[Ses("authenticating", "right") EXCEPT !.scheme = "guest", !.ident = "", !.cred = "e"]}
              \cup {[Ses("authenticating", i) EXCEPT !.ident = "a"] : i \in {"right", "wrong"}}
              \cup {[Ses("authenticating", "right") EXCEPT !.scheme = "plain", !.ident = "a"]}
              \* out-of-order state with otherwise acceptable credentials: fails that check alone
              \cup {[Ses(s, "right") EXCEPT !.scheme = "plain", !.ident = "a", !.cred = "p"] :
                       s \in OtherStates("authenticating")}
              \cup {[Ses(s, "right") EXCEPT !.scheme = "guest", !.ident = "a", !.cred = "e"] :
                       s \in OtherStates("authenticating")}
              \cup Noise

-----------------------------------------------------------------------------
Stamp(sym) == [sym EXCEPT !.wire = Wire]
(* chan flavour: after every step the driver samples State() and calls every *)
(* send operation once (C06); on an established channel the four data sends *)
(* succeed and reach the peer.                                               *)
SendOps == <<"msg", "not", "req", "resp">>
ProbeEv(s, o, w) ==
  IF s = "established" /\ o
  THEN <<[Ev("probe") EXCEPT !.st = s, !.res = "ok"]>>
       \o [j \in 1 .. 4 |-> [Ev("out") EXCEPT !.kind = SendOps[j], !.wire = w]]
  ELSE <<[Ev("probe") EXCEPT !.st = s, !.res = "err"]>>
StateEvW(s, o, w) == IF cfg.flavour = "chan"
                     THEN <<[Ev("state") EXCEPT !.st = s]>> \o ProbeEv(s, o, w) ELSE <<>>
StateEv(s) == StateEvW(s, s \notin {"finished", "failed"}, Wire)
RetEv(r, s, e) == IF cfg.flavour = "chan"
                  THEN <<[Ev("ret") EXCEPT !.res = r, !.st = s, !.tenc = e]>> ELSE <<>>

(* bare `return err`: nothing emitted, state kept; the Server flavour then  *)
(* runs handleChannel's error arm                                           *)
BareErrE(evs, vanished, e) ==      \* e = the encryption the transport is under by now
  /\ obs' = obs \o evs
            \o (IF cfg.flavour = "server" /\ FixReleaseOnErr /\ ~vanished
                THEN <<Ev("closed")>> ELSE <<>>)
            \o RetEv("err", sState, e) \o StateEv(sState)
  /\ pc' = "dead"
  /\ open' = IF cfg.flavour = "server" /\ FixReleaseOnErr THEN FALSE ELSE open
  /\ tenc' = e
  /\ UNCHANGED <<cfg, sState, rt, fed>>
BareErr(evs, vanished) == BareErrE(evs, vanished, tenc)

(* FailSession: emit failed + reason, state := failed, close (send succeeded) *)
Fail(evs) ==
  /\ obs' = obs \o evs
            \o <<[Out("failed") EXCEPT !.reason = "y"], Ev("closed")>>
            \o RetEv("nil", "failed", tenc) \o StateEv("failed")
            \o (IF cfg.flavour = "server" /\ ~FixCallbacksOnlyEstablished
                THEN <<[Ev("cbEst") EXCEPT !.tenc = tenc], Ev("cbFin")>> ELSE <<>>)
  /\ sState' = "failed" /\ open' = FALSE /\ pc' = "dead"
  /\ UNCHANGED <<cfg, tenc, rt, fed>>

(* sendAuthenticatingSession *)
StartAuth(evs, e) ==
  IF cfg.schemes = {} THEN BareErrE(evs, FALSE, e)      \* (after an upgrade the transport is under tls already)
  ELSE /\ obs' = obs \o evs
                 \o <<[Out("authenticating") EXCEPT !.sopts = SchStr(cfg.schemes),
                        !.wire = IF e = "tls" THEN "tls" ELSE "clear"]>>
                 \o StateEvW("authenticating", TRUE, IF e = "tls" THEN "tls" ELSE "clear")
       /\ sState' = "authenticating" /\ pc' = "creds" /\ tenc' = e
       /\ UNCHANGED <<cfg, open, rt, fed>>

NegEnc  == cfg.enc \cap SupEnc(cfg.tk)
NegComp == cfg.comp \cap SupComp(cfg.tk)
MustNegotiate ==
  \/ Cardinality(NegComp) > 1 \/ Cardinality(NegEnc) > 1
  \/ (FixNegotiateSingle /\ Cardinality(NegEnc) = 1 /\ NegEnc # {CurEnc0(cfg.tk)})

(* EstablishSession up to the first blocking receive after the new session *)
SrvRecvFirst(sym) ==
  /\ pc = "first" /\ sym \in FirstSyms
  /\ LET i == Stamp(sym) IN
     IF sym.kind # "ses" THEN BareErr(<<i>>, sym.kind = "eof")
     ELSE IF sym.id # "none" THEN Fail(<<i>>)
     ELSE IF sym.st # "new" THEN Fail(<<i>>)          \* catch-all at the end
     ELSE IF MustNegotiate
          THEN IF NegComp = {} \/ NegEnc = {} THEN BareErr(<<i>>, FALSE)
               ELSE /\ obs' = obs \o <<i, [Out("negotiating") EXCEPT
                                             !.eopts = EncStr(NegEnc), !.copts = CompStr(NegComp)]>>
                                  \o StateEv("negotiating")
                    /\ sState' = "negotiating" /\ pc' = "choice"
                    /\ UNCHANGED <<cfg, open, tenc, rt, fed>>
          ELSE StartAuth(<<i>>, tenc)

(* negotiateSession after the client's choice arrived *)
SrvRecvChoice(sym) ==
  /\ pc = "choice" /\ sym \in ChoiceSyms
  /\ LET i == Stamp(sym) IN
     IF sym.kind # "ses" THEN BareErr(<<i>>, sym.kind = "eof")
     ELSE IF sym.id # "right" THEN Fail(<<i>>)
     ELSE IF ~(sym.st = "negotiating" /\ sym.comp \in NegComp /\ sym.enc \in NegEnc) THEN Fail(<<i>>)
     ELSE LET conf == [Out("negotiating") EXCEPT !.enc = sym.enc, !.comp = sym.comp] IN
          IF sym.enc = tenc THEN StartAuth(<<i, conf>>, tenc)
          ELSE IF ~CanTls(cfg.tk) THEN BareErr(<<i, conf>>, FALSE)   \* SetEncryption fails
          ELSE /\ obs' = obs \o <<i, conf>> \o StateEv("negotiating")
               /\ pc' = "upgrade"
               /\ UNCHANGED <<cfg, sState, open, tenc, rt, fed>>

(* the TLS handshake of SetEncryption needs a TLS-speaking peer *)
SrvUpgrade(sym) ==
  /\ pc = "upgrade" /\ sym \in UpgradeSyms
  /\ IF sym.kind = "tlsup"
     THEN StartAuth(<<[Stamp(sym) EXCEPT !.wire = "tls"]>>, "tls")
     ELSE BareErr(<<Stamp(sym)>>, sym.kind = "eof")

AuthOutcomes(sym) ==
  IF cfg.flavour = "chan"
  THEN {"member", "authority", "unknown", "empty", "error"}
       \cup (IF rt < MaxRT THEN {"roundtrip"} ELSE {})
  ELSE CASE sym.scheme = "guest" -> {IF sym.ident = "a" THEN "member" ELSE "unknown"}
         [] sym.scheme = "plain" /\ sym.cred # "" ->
              {"member", "unknown", "error"} \cup (IF rt < MaxRT THEN {"roundtrip"} ELSE {})
         [] sym.scheme \in {"key", "external"} /\ sym.cred # "" -> {"member", "unknown", "error"}
         [] OTHER -> {"error"}

(* loop body of authenticateSession *)
SrvRecvCreds(sym) ==
  /\ pc = "creds" /\ sym \in CredSyms
  /\ LET i == Stamp(sym) IN
     IF sym.kind # "ses" THEN BareErr(<<i>>, sym.kind = "eof")
     ELSE IF sym.st # "authenticating" \/ sym.id # "right" \/ sym.scheme \notin cfg.schemes
          THEN Fail(<<i>>)
     ELSE \E ao \in AuthOutcomes(sym) :
       LET a == [Ev("auth") EXCEPT !.scheme = IF sym.cred = "" THEN "" ELSE sym.scheme, !.ident = sym.ident,
                                   !.cred = sym.cred, !.res = ao, !.tenc = tenc] IN
       \* (server flavour: the harness finds the run of a callback by the identity's name; without one the
       \*  callback's own record is missing from the observations)
       LET ia == IF cfg.flavour = "server" /\ sym.ident = "" THEN <<i>> ELSE <<i, a>> IN
       CASE ao = "error" -> BareErr(ia, FALSE)
         [] KnownRole(ao) ->
              \E ro \in {"ok", "error"} :
                LET r == [Ev("reg") EXCEPT !.ident = sym.ident, !.res = ro] IN
                IF ro = "error" THEN BareErr(ia \o <<r>>, FALSE)
                ELSE /\ obs' = obs \o ia \o <<r, [Out("established") EXCEPT !.to = "reg"]>>
                                   \o RetEv("nil", "established", tenc) \o StateEv("established")
                                   \o (IF cfg.flavour = "server"
                                       THEN <<[Ev("cbEst") EXCEPT !.tenc = tenc]>> ELSE <<>>)
                     /\ sState' = "established" /\ pc' = "estab"
                     /\ UNCHANGED <<cfg, open, tenc, rt, fed>>
         [] ao = "roundtrip" ->
              /\ obs' = obs \o ia \o <<[Out("authenticating") EXCEPT !.cred = "rt"]>>
                            \o StateEv("authenticating")
              /\ rt' = rt + 1
              /\ UNCHANGED <<cfg, pc, sState, open, tenc, fed>>
         [] OTHER -> Fail(ia)

-----------------------------------------------------------------------------
(* data sent by the client on the established session reaches the streams / handlers *)
PostData(kind) ==
  /\ pc = "estab" /\ ~fed /\ kind \in DataKinds
  /\ fed' = TRUE
  /\ obs' = obs \o <<Stamp(In(kind)), [Ev("deliver") EXCEPT !.kind = kind]>> \o StateEv(sState)
  /\ UNCHANGED <<cfg, pc, sState, open, tenc, rt>>

(* end of an established session.  chan: the application calls FinishSession *)
(* or FailSession.  server: the client asks to finish or vanishes and        *)
(* handleChannel's deferred arm runs.                                        *)
Teardown(how) ==
  /\ pc = "estab"
  /\ \/ /\ cfg.flavour = "chan" /\ how \in {"finish", "fail"}
        /\ obs' = obs \o <<[Ev("app") EXCEPT !.op = how],
                            IF how = "finish" THEN [Out("finished") EXCEPT !.to = "reg"]
                            ELSE [Out("failed") EXCEPT !.to = "reg", !.reason = "y"],
                            Ev("closed")>>
                      \o StateEv(IF how = "finish" THEN "finished" ELSE "failed")
        /\ sState' = IF how = "finish" THEN "finished" ELSE "failed"
     \/ /\ cfg.flavour = "server" /\ how = "finishing"
        /\ obs' = obs \o <<Stamp(Ses("finishing", "right")),
                            [Out("finished") EXCEPT !.to = "reg"], Ev("closed"), Ev("cbFin")>>
        /\ sState' = "finished"
     \/ /\ cfg.flavour = "server" /\ how = "eof"
        /\ obs' = obs \o <<Stamp(In("eof")), Ev("cbFin")>>
        /\ sState' = sState
  /\ open' = FALSE /\ pc' = "dead"
  /\ UNCHANGED <<cfg, tenc, rt, fed>>

(* end of the case: the driver looks at what is left behind *)
End ==
  /\ pc = "dead"
  /\ obs' = Append(obs, [Ev("end") EXCEPT !.res = "quiet"])
  /\ pc' = "end"
  /\ UNCHANGED <<cfg, sState, open, tenc, rt, fed>>

-----------------------------------------------------------------------------
Init == /\ cfg \in Configs
        /\ pc = "first" /\ sState = "new" /\ open = TRUE
        /\ tenc = CurEnc0(cfg.tk) /\ rt = 0 /\ fed = FALSE
        /\ obs = StateEv("new")

Next == \/ \E s \in FirstSyms : SrvRecvFirst(s)
        \/ \E s \in ChoiceSyms : SrvRecvChoice(s)
        \/ \E s \in UpgradeSyms : SrvUpgrade(s)
        \/ \E s \in CredSyms : SrvRecvCreds(s)
        \/ \E k \in DataKinds : PostData(k)
        \/ \E h \in {"finish", "fail", "finishing", "eof"} : Teardown(h)
        \/ End

Spec == Init /\ [][Next]_vars

Terminal == pc = "end"

-----------------------------------------------------------------------------
(* properties: the shared operators on (cfg, obs) *)
P_C03 == C03_EstablishedSoundness(cfg, obs)
P_C07 == /\ C07_EmitOrder(cfg, obs) /\ C07_OneIdOneSender(cfg, obs)
         /\ C07_Monotone(cfg, obs) /\ C07_NothingAfterFailed(cfg, obs)
         /\ C07_FailClosed(cfg, obs)
P_C09 == C09_OfferExact(cfg, obs) /\ C09_ConfirmSound(cfg, obs) /\ C09_UpgradeBeforeAuth(cfg, obs)
P_C10 == C10_NoCleartextAuth(cfg, obs)
P_C06 == C06_SendGuard(cfg, obs) /\ C06_RecvGuard(cfg, obs)
P_C14 == C14_Released(cfg, obs)

(* the channel state only moves forward, and only the establishing step makes it established *)
A_Monotone == [][Step(sState') >= Step(sState)]_sState
A_EstablishOnlyByAuth ==
  [][(sState' = "established" /\ sState # "established") => pc = "creds"]_vars

TypeOK == /\ pc \in {"first", "choice", "upgrade", "creds", "estab", "dead", "end"}
          /\ sState \in {"new", "negotiating", "authenticating", "established", "finished", "failed"}
          /\ tenc \in {"none", "tls"} /\ rt \in 0 .. MaxRT
=============================================================================
