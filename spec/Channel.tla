------------------------------- MODULE Channel -------------------------------
(* The established-phase data path and teardown of a channel pair, at the     *)
(* granularity of channel.go:                                                  *)
(*   sendToTransport   SendCheck (ensureEstablished, before the mutex) ;       *)
(*                     SendLock (sendMu) ; SendWrite (transport.Send) ; unlock *)
(*   sendSession       state / transport check ; transport.Send WITHOUT sendMu *)
(*   FinishSession     check ; sendSession(finished) ; setState => stop the    *)
(*                     receiver ; transport.Close                              *)
(*   receiveFromTransport  loop guard ; Receive ; route by kind into a bounded *)
(*                     stream (blocking, cancellable) ; a session envelope     *)
(*                     goes to the session queue, the client folds its state,  *)
(*                     the receiver exits and closes every stream              *)
(* Endpoint S (server role) has application sender goroutines and ends the     *)
(* session at any moment; endpoint C (client role) receives, buffers and       *)
(* consumes.  The wire is a bounded FIFO.                                      *)
(* Toggle FixSessionWriteLock: FALSE = as written (session envelopes bypass    *)
(* the send mutex), TRUE = serialised with the data writes.                    *)
(* Toggle FixSendGuardUnderLock: FALSE = as written: the established check of a *)
(* data send happens only before it waits for the mutex, and the terminating   *)
(* call changes the state after it has released the mutex, so a send that was  *)
(* waiting writes its envelope behind the terminal session envelope.  TRUE =   *)
(* the check is repeated under the mutex and the state changes before the     *)
(* mutex is released.                                                          *)
(* Toggle FixGracefulClose: FALSE = as written: the terminating side closes    *)
(* its socket at once; when the peer's data is unread (or still arrives) the   *)
(* connection is reset and what was written but not yet received - the         *)
(* terminal session envelope included - is discarded.  TRUE = a close that     *)
(* lets the written data reach the peer (not implemented: open finding).       *)
EXTENDS Integers, Sequences, FiniteSets, TLC, ChanProps

CONSTANTS Senders, PerSender, K, W, FixSessionWriteLock, FixGracefulClose, FixSendGuardUnderLock

VARIABLES spc, sIdx, mu, writers, sState, wire,
          fin,                      \* server's FinishSession: "none" | "checked" | "writing" | "sent" | "closed"
          rpc, held, streams, sesq, cState, rcvDone,
          peerBusy,                 \* C has written data that S has not read when S closes (traffic in flight towards S)
          reset,                    \* the connection was reset
          obs
vars == <<spc, sIdx, mu, writers, sState, wire, fin, rpc, held, streams, sesq, cState, rcvDone, peerBusy, reset, obs>>

Kinds == {"msg", "not"}
KindOf(g, i) == IF i % 2 = 1 THEN "msg" ELSE "not"
Env(g, i) == [g |-> g, i |-> i, kind |-> KindOf(g, i)]
FinEnv == [g |-> "ses", i |-> 0, kind |-> "ses"]
Ev(k) == [H0 EXCEPT !.k = k]

(* ---- application senders on S ---- *)
SendCheck(g) ==
  /\ spc[g] = "idle" /\ sIdx[g] < PerSender
  /\ IF sState = "established"
     THEN spc' = [spc EXCEPT ![g] = "checked"] /\ UNCHANGED <<sIdx, obs>>
     ELSE \* the send returns an error and emits nothing
          /\ sIdx' = [sIdx EXCEPT ![g] = PerSender] /\ UNCHANGED spc
          /\ obs' = Append(obs, [Ev("senderr") EXCEPT !.g = g])
  /\ UNCHANGED <<mu, writers, sState, wire, fin, rpc, held, streams, sesq, cState, rcvDone, peerBusy, reset>>
SendLock(g) ==
  /\ spc[g] = "checked" /\ mu = "none"
  /\ IF FixSendGuardUnderLock /\ sState # "established"
     THEN \* the session ended while this send was waiting: it returns an error and emits nothing
          /\ sIdx' = [sIdx EXCEPT ![g] = PerSender] /\ spc' = [spc EXCEPT ![g] = "idle"]
          /\ obs' = Append(obs, [Ev("senderr") EXCEPT !.g = g]) /\ UNCHANGED mu
     ELSE mu' = g /\ spc' = [spc EXCEPT ![g] = "locked"] /\ UNCHANGED <<sIdx, obs>>
  /\ UNCHANGED <<writers, sState, wire, fin, rpc, held, streams, sesq, cState, rcvDone, peerBusy, reset>>
SendWriteBegin(g) ==
  /\ spc[g] = "locked"
  /\ writers' = writers \cup {g} /\ spc' = [spc EXCEPT ![g] = "writing"]
  /\ UNCHANGED <<sIdx, mu, sState, wire, fin, rpc, held, streams, sesq, cState, rcvDone, obs, peerBusy, reset>>
SendWriteEnd(g) ==       \* the envelope is on the wire, the mutex released, Send* returns nil
  /\ spc[g] = "writing" /\ Len(wire) < W
  /\ wire' = Append(wire, Env(g, sIdx[g] + 1))
  /\ writers' = writers \ {g} /\ mu' = "none"
  /\ sIdx' = [sIdx EXCEPT ![g] = @ + 1] /\ spc' = [spc EXCEPT ![g] = "idle"]
  /\ obs' = Append(obs, [Ev("sent") EXCEPT !.g = g, !.i = sIdx[g] + 1, !.kind = KindOf(g, sIdx[g] + 1)])
  /\ UNCHANGED <<sState, fin, rpc, held, streams, sesq, cState, rcvDone, peerBusy, reset>>

(* ---- the server ends the session ---- *)
FinCheck ==
  /\ fin = "none" /\ sState = "established"
  /\ (FixSessionWriteLock => mu = "none")
  /\ fin' = "checked" /\ mu' = IF FixSessionWriteLock THEN "fin" ELSE mu
  /\ UNCHANGED <<spc, sIdx, writers, sState, wire, rpc, held, streams, sesq, cState, rcvDone, obs, peerBusy, reset>>
FinWriteBegin ==
  /\ fin = "checked"
  /\ writers' = writers \cup {"fin"} /\ fin' = "writing"
  /\ UNCHANGED <<spc, sIdx, mu, sState, wire, rpc, held, streams, sesq, cState, rcvDone, obs, peerBusy, reset>>
FinWriteEnd ==
  /\ fin = "writing" /\ Len(wire) < W
  /\ wire' = Append(wire, FinEnv) /\ writers' = writers \ {"fin"}
  /\ mu' = IF mu = "fin" THEN "none" ELSE mu
  /\ IF FixSendGuardUnderLock THEN sState' = "finished" /\ fin' = "sent"
                               ELSE UNCHANGED sState /\ fin' = "written"
  /\ obs' = Append(obs, [Ev("finsent") EXCEPT !.g = "S"])
  /\ UNCHANGED <<spc, sIdx, rpc, held, streams, sesq, cState, rcvDone, peerBusy, reset>>
FinSetState ==      \* as written: the state changes once the mutex has been released
  /\ fin = "written"
  /\ sState' = "finished" /\ fin' = "sent"
  /\ UNCHANGED <<spc, sIdx, mu, writers, wire, rpc, held, streams, sesq, cState, rcvDone, peerBusy, reset, obs>>

(* the terminating call closes the connection *)
FinClose ==
  /\ fin = "sent"
  /\ fin' = "closed"
  /\ IF peerBusy /\ ~FixGracefulClose
     THEN wire' = <<>> /\ reset' = TRUE
     ELSE UNCHANGED <<wire, reset>>
  /\ UNCHANGED <<spc, sIdx, mu, writers, sState, rpc, held, streams, sesq, cState, rcvDone, peerBusy, obs>>

(* ---- receiver goroutine on C ---- *)
RcvReset ==       \* the read fails: the receiver ends, the streams are closed, the state is what it was
  /\ rpc = "recv" /\ wire = <<>> /\ reset
  /\ rpc' = "exit" /\ rcvDone' = TRUE
  /\ obs' = Append(obs, [Ev("closedstreams") EXCEPT !.g = "C"])
  /\ UNCHANGED <<spc, sIdx, mu, writers, sState, wire, fin, held, streams, sesq, cState, peerBusy, reset>>
RcvReceive ==
  /\ rpc = "recv" /\ wire # <<>> /\ cState = "established"
  /\ held' = Head(wire) /\ wire' = Tail(wire) /\ rpc' = "route"
  /\ UNCHANGED <<spc, sIdx, mu, writers, sState, fin, streams, sesq, cState, rcvDone, obs, peerBusy, reset>>
RcvRoute ==
  /\ rpc = "route"
  /\ IF held.kind = "ses"
     THEN \* queued for FinishSession / the application; the client folds the state; the receiver ends
          /\ sesq' = Append(sesq, held) /\ cState' = "finished" /\ rpc' = "exit" /\ rcvDone' = TRUE
          /\ obs' = Append(obs, [Ev("closedstreams") EXCEPT !.g = "C"])
          /\ UNCHANGED streams
     ELSE /\ Len(streams[held.kind]) < K + 1      \* K buffered + the one the consumer is about to take
          /\ streams' = [streams EXCEPT ![held.kind] = Append(@, held)]
          /\ rpc' = "recv" /\ UNCHANGED <<sesq, cState, rcvDone, obs>>
  /\ UNCHANGED <<spc, sIdx, mu, writers, sState, wire, fin, held, peerBusy, reset>>

(* ---- consumer on C: a dispatch loop or a stream reader, possibly slow ---- *)
Consume(kind) ==
  /\ streams[kind] # <<>>
  /\ LET e == Head(streams[kind]) IN
     obs' = Append(obs, [Ev("delivered") EXCEPT !.g = e.g, !.i = e.i, !.kind = e.kind])
  /\ streams' = [streams EXCEPT ![kind] = Tail(@)]
  /\ UNCHANGED <<spc, sIdx, mu, writers, sState, wire, fin, rpc, held, sesq, cState, rcvDone, peerBusy, reset>>

Quiet == /\ \A g \in Senders : spc[g] = "idle" /\ sIdx[g] = PerSender
         /\ (fin \in {"none", "closed"}) /\ (rpc = "exit" \/ (wire = <<>> /\ rpc = "recv" /\ ~reset))
         /\ \A k \in Kinds : streams[k] = <<>>        \* a consumer drains what a closed stream still holds
End == /\ Quiet /\ ~HasEnd(obs)
       /\ obs' = Append(obs, [Ev("end") EXCEPT !.kind = cState, !.g = IF rcvDone THEN "done" ELSE "open"])
       /\ UNCHANGED <<spc, sIdx, mu, writers, sState, wire, fin, rpc, held, streams, sesq, cState, rcvDone, peerBusy, reset>>

Init == /\ spc = [g \in Senders |-> "idle"] /\ sIdx = [g \in Senders |-> 0] /\ mu = "none" /\ writers = {}
        /\ sState = "established" /\ wire = <<>> /\ fin = "none"
        /\ rpc = "recv" /\ held = FinEnv /\ streams = [k \in Kinds |-> <<>>] /\ sesq = <<>>
        /\ cState = "established" /\ rcvDone = FALSE /\ obs = <<>>
        /\ peerBusy \in BOOLEAN /\ reset = FALSE
Next == /\ ~HasEnd(obs)
        /\ \/ \E g \in Senders : SendCheck(g) \/ SendLock(g) \/ SendWriteBegin(g) \/ SendWriteEnd(g)
           \/ FinCheck \/ FinWriteBegin \/ FinWriteEnd \/ FinSetState
           \/ FinClose \/ RcvReceive \/ RcvRoute \/ RcvReset \/ \E k \in Kinds : Consume(k)
           \/ End
Spec == Init /\ [][Next]_vars
Fair == Spec /\ WF_vars(Next)

(* no two goroutines are inside the transport's write at once *)
WriterExclusion == Cardinality(writers) <= 1
P_C04 == C04_NoFabrication(obs) /\ C04_AtMostOnce(obs) /\ C04_PerSenderOrder(obs)
         /\ (HasEnd(obs) => C04_AllDelivered(obs))
P_C13 == HasEnd(obs) => C13_ModelCleanEnd(obs)
(* C06, established phase: once the terminal session envelope is written nothing is emitted any more *)
NoDataAfterFinished == \A n \in 1 .. Len(obs) : obs[n].k = "finsent" =>
                          \A m \in (n + 1) .. Len(obs) : obs[m].k # "sent"
TypeOK == Len(wire) <= W /\ mu \in Senders \cup {"none", "fin"}
=============================================================================
