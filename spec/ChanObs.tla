------------------------------- MODULE ChanObs -------------------------------
(* Observed-history monitor of the established-channel family: walks the       *)
(* histories recorded from real sessions (one "cfg" record starts each run)    *)
(* and evaluates the ChanProps operators at the end of every run.              *)
EXTENDS Integers, Sequences, TLC, Json, ChanProps
CONSTANTS TraceFile
Trace == ndJsonDeserialize(TraceFile)
VARIABLES l, caseN, obs
vars == <<l, caseN, obs>>
Intact(o) == \A n \in Idx(o) : o[n].k = "delivered" => o[n].res = "intact"
Ops(o) ==
  << <<"C04_NoFabrication", C04_NoFabrication(o)>>, <<"C04_AtMostOnce", C04_AtMostOnce(o)>>,
     <<"C04_PerSenderOrder", C04_PerSenderOrder(o)>>, <<"C04_AllDelivered", C04_AllDelivered(o)>>,
     <<"C04_Intact", Intact(o)>>,
     <<"C13_CleanEnd", C13_CleanEnd(o)>>, <<"C13_PeerObserves", C13_PeerObserves(o)>>, <<"C13_InitiatorObserves", C13_InitiatorObserves(o)>>, <<"C13_NoLeak", C13_NoLeak(o)>>, <<"C13_NoCrash", C13_NoCrash(o)>>,
     <<"C06_QuietAfterEnd", C06_QuietAfterEnd(o)>>, <<"C06_NoSendAfterEnd", C06_NoSendAfterEnd(o)>>,
     <<"C17_Isolated", C17_Isolated(o)>> >>
Report(n, o) ==
  LET ops == Ops(o)
  IN \A i \in 1 .. Len(ops) : ops[i][2] \/ PrintT(<<"BAD", n, ops[i][1]>>)
CaseEnds(i) == i = Len(Trace) \/ Trace[i + 1].k = "cfg"
Init == l = 1 /\ caseN = 0 /\ obs = <<>>
Next ==
  /\ l <= Len(Trace)
  /\ l' = l + 1
  /\ LET r == Trace[l] IN
     IF r.k = "cfg" THEN caseN' = r.n /\ obs' = <<>>
     ELSE obs' = Append(obs, r) /\ UNCHANGED caseN
  /\ (CaseEnds(l) => Report(caseN', obs'))
Spec == Init /\ [][Next]_vars
Consumed == TLCGet("stats").diameter - 1 = Len(Trace)
=============================================================================
