------------------------------ MODULE HsProps ------------------------------
(* Property operators of the handshake family (C03 C06 C07 C08 C09 C10 C14). *)
(* They are functions of a configuration record and of an observation      *)
(* history `obs` only, so the very same definitions are evaluated           *)
(*  (1) by TLC on every state of the implementation-shaped models           *)
(*      HsServer / HsClient,                                                *)
(*  (2) on the histories recorded from the real code (HsObs).               *)
EXTENDS Integers, Sequences, FiniteSets

(* One uniform event record; unused fields keep their default "" so that   *)
(* field access is total on histories read back from JSON.                 *)
E0 == [k |-> "", kind |-> "", st |-> "", id |-> "", enc |-> "", comp |-> "",
       eopts |-> "", copts |-> "", sopts |-> "", scheme |-> "", ident |-> "",
       cred |-> "", res |-> "", frm |-> "", to |-> "", reason |-> "",
       wire |-> "", tenc |-> "", op |-> ""]

States == <<"new", "negotiating", "authenticating", "established",
            "finishing", "finished", "failed">>
Step(s) == CASE s = "new" -> 0 [] s = "negotiating" -> 1
             [] s = "authenticating" -> 2 [] s = "established" -> 3
             [] s = "finishing" -> 4 [] s = "finished" -> 5
             [] s = "failed" -> 6 [] OTHER -> -1

(* canonical string form of small option sets *)
JoinC(a, b) == IF a = "" THEN b ELSE IF b = "" THEN a ELSE a \o "," \o b
EncStr(S)  == JoinC(JoinC(IF "none" \in S THEN "none" ELSE "", IF "tls" \in S THEN "tls" ELSE ""),
                    IF "dtls" \in S THEN "dtls" ELSE "")     \* "dtls": an option no transport supports
CompStr(S) == JoinC(IF "none" \in S THEN "none" ELSE "", IF "gzip" \in S THEN "gzip" ELSE "")
SchStr(S)  == JoinC(JoinC(JoinC(JoinC(IF "guest" \in S THEN "guest" ELSE "",
                                      IF "plain" \in S THEN "plain" ELSE ""),
                                IF "transport" \in S THEN "transport" ELSE ""),
                          IF "key" \in S THEN "key" ELSE ""),
                    IF "external" \in S THEN "external" ELSE "")
EncSet(s)  == IF \E S \in SUBSET {"none", "tls", "dtls"} : EncStr(S) = s
              THEN CHOOSE S \in SUBSET {"none", "tls", "dtls"} : EncStr(S) = s ELSE {"?"}
CompSet(s) == IF \E S \in SUBSET {"none", "gzip"} : CompStr(S) = s
              THEN CHOOSE S \in SUBSET {"none", "gzip"} : CompStr(S) = s ELSE {"?"}
AllSchemes == {"guest", "plain", "transport", "key", "external"}
SchSet(s)  == IF \E S \in SUBSET AllSchemes : SchStr(S) = s
              THEN CHOOSE S \in SUBSET AllSchemes : SchStr(S) = s ELSE {"?"}

(* what a transport kind can provide *)
SupEnc(tk)  == CASE tk \in {"tcp_tls", "tcp_notls"} -> {"none", "tls"}
                 [] tk = "wss" -> {"tls"} [] OTHER -> {"none"}
SupComp(tk) == {"none"}
CurEnc0(tk) == IF tk = "wss" THEN "tls" ELSE "none"
(* can the connection really be switched to tls / is it tls already *)
CanTls(tk)  == tk \in {"tcp_tls", "wss"}

Idx(obs) == 1 .. Len(obs)
LastIdx(obs, n, P(_)) ==   \* greatest i < n with P(obs[i]), or 0
  LET I == {i \in 1 .. (n - 1) : P(obs[i])}
  IN IF I = {} THEN 0 ELSE CHOOSE i \in I : \A j \in I : j <= i
NextIdx(obs, n, P(_)) ==   \* least i > n with P(obs[i]), or 0
  LET I == {i \in (n + 1) .. Len(obs) : P(obs[i])}
  IN IF I = {} THEN 0 ELSE CHOOSE i \in I : \A j \in I : i <= j

IsOutSes(e) == e.k = "out" /\ e.kind = "ses"
IsOut(e)    == e.k = "out"
IsInSes(e)  == e.k = "in" /\ e.kind = "ses"
KnownRole(r) == r \in {"member", "authority", "rootAuthority"}

(* stage of an emitted session envelope in the protocol order *)
OutStage(e) ==
  CASE e.st = "negotiating" /\ (e.eopts # "" \/ e.copts # "") -> 1
    [] e.st = "negotiating" -> 2
    [] e.st = "authenticating" /\ e.sopts # "" -> 3
    [] e.st = "authenticating" -> 4
    [] e.st = "established" -> 5
    [] e.st \in {"finished", "failed"} -> 6
    [] OTHER -> 0

(* what the server is waiting for just before position n, judged from what *)
(* it emitted so far: "first" | "choice" | "upgrade" | "creds" | "estab" | "end" *)
SrvStage(obs, n) ==
  LET o == LastIdx(obs, n, IsOutSes)
  IN IF o = 0 THEN "first"
     ELSE LET g == OutStage(obs[o])
          IN CASE g = 1 -> "choice"
               [] g = 2 -> IF obs[o].enc = "tls" /\ obs[o].wire = "clear" /\
                              LastIdx(obs, n, LAMBDA e : e.k = "in" /\ e.kind = "tlsup") < o
                           THEN "upgrade" ELSE "pre-auth"
               [] g \in {3, 4} -> "creds"
               [] g = 5 -> "estab"
               [] OTHER -> "end"

-----------------------------------------------------------------------------
(* C03 — no session is established without successful authentication        *)
EstClaim(e) == (IsOutSes(e) /\ e.st = "established")
               \/ (e.k = "ret" /\ e.st = "established")
               \/ e.k = "cbEst"

C03_EstablishedSoundness(cfg, obs) ==
  \A n \in Idx(obs) : EstClaim(obs[n]) =>
    LET a == LastIdx(obs, n, LAMBDA e : e.k = "auth")
        c == LastIdx(obs, n, LAMBDA e : IsInSes(e) /\ e.st = "authenticating")
        r == LastIdx(obs, n, LAMBDA e : e.k = "reg")
        q == LastIdx(obs, n, LAMBDA e : IsOutSes(e) /\ OutStage(e) = 3)
    IN /\ a > 0 /\ c > 0 /\ q > 0 /\ r > 0
       /\ q < c /\ c < a /\ a < r
       /\ KnownRole(obs[a].res)
       /\ (obs[c].cred # "" => obs[a].scheme = obs[c].scheme)
       /\ obs[a].ident = obs[c].ident
       /\ obs[a].cred = obs[c].cred
       /\ obs[c].id = "right"
       \* (the library's own per-scheme dispatcher never accepts a reply that presents nothing at all)
       /\ (cfg.flavour = "server" => obs[c].cred # "")
       /\ obs[c].scheme \in SchSet(obs[q].sopts)
       /\ obs[c].scheme \in cfg.schemes
       /\ obs[r].res = "ok"
       /\ obs[r].ident = obs[c].ident
       /\ \A i \in 1 .. (n - 1) : ~(IsOutSes(obs[i]) /\ obs[i].st = "failed")
       /\ (IsOutSes(obs[n]) => obs[n].to = "reg")

-----------------------------------------------------------------------------
(* C07 — protocol order, single id, server node as sender, fail closed       *)
C07_EmitOrder(cfg, obs) ==
  \A n \in Idx(obs) : IsOutSes(obs[n]) =>
    LET g == OutStage(obs[n])
        p == LastIdx(obs, n, IsOutSes)
        pg == IF p = 0 THEN 0 ELSE OutStage(obs[p])
    IN /\ g # 0
       /\ CASE g = 1 -> pg = 0
            [] g = 2 -> pg = 1
            [] g = 3 -> pg \in {0, 2}
            [] g = 4 -> /\ pg \in {3, 4}
                        /\ LET a == LastIdx(obs, n, LAMBDA e : e.k = "auth")
                           IN a > p /\ obs[a].res = "roundtrip"
            [] g = 5 -> pg \in {3, 4}
            [] OTHER -> /\ pg # 6
                        /\ (obs[n].st = "finished" => pg = 5)

C07_OneIdOneSender(cfg, obs) ==
  \A n \in Idx(obs) : IsOutSes(obs[n]) => obs[n].id = "right" /\ obs[n].frm = "srv"

C07_Monotone(cfg, obs) ==
  \A i, j \in Idx(obs) :
    (i < j /\ obs[i].k = "state" /\ obs[j].k = "state") => Step(obs[i].st) <= Step(obs[j].st)

C07_NothingAfterFailed(cfg, obs) ==
  \A n \in Idx(obs) : (IsOutSes(obs[n]) /\ obs[n].st = "failed") =>
    /\ obs[n].reason = "y"
    /\ \A m \in (n + 1) .. Len(obs) : ~IsOut(obs[m])

(* a violation by the client inside the session exchange *)
ClientViolation(cfg, obs, n) ==
  LET e == obs[n] stg == SrvStage(obs, n)
      offer == LastIdx(obs, n, LAMBDA x : IsOutSes(x) /\ OutStage(x) = 1)
      areq == LastIdx(obs, n, LAMBDA x : IsOutSes(x) /\ OutStage(x) = 3)
  IN IsInSes(e) /\
     CASE stg = "first"  -> e.st # "new" \/ e.id # "none"
       [] stg = "choice" -> \/ e.id # "right" \/ e.st # "negotiating"
                            \/ e.enc \notin EncSet(obs[offer].eopts)
                            \/ e.comp \notin CompSet(obs[offer].copts)
       [] stg = "creds"  -> \/ e.id # "right" \/ e.st # "authenticating"
                            \/ e.scheme \notin SchSet(obs[areq].sopts)
       [] OTHER -> FALSE

C07_FailClosed(cfg, obs) ==
  \A n \in Idx(obs) : ClientViolation(cfg, obs, n) =>
    LET o == NextIdx(obs, n, IsOut)
    IN /\ o > 0 /\ IsOutSes(obs[o]) /\ obs[o].st = "failed" /\ obs[o].reason = "y"
       /\ NextIdx(obs, o, IsOut) = 0
       /\ NextIdx(obs, o, LAMBDA x : x.k = "closed") > 0
       /\ \A m \in (n + 1) .. Len(obs) : obs[m].k \notin {"auth", "reg", "cbEst"}

-----------------------------------------------------------------------------
(* C09 — only offered options are negotiated, both ends apply them           *)
C09_OfferExact(cfg, obs) ==
  \A n \in Idx(obs) : (IsOutSes(obs[n]) /\ OutStage(obs[n]) = 1) =>
    /\ obs[n].eopts = EncStr(cfg.enc \cap SupEnc(cfg.tk))
    /\ obs[n].copts = CompStr(cfg.comp \cap SupComp(cfg.tk))

C09_ConfirmSound(cfg, obs) ==
  \A n \in Idx(obs) : (IsOutSes(obs[n]) /\ OutStage(obs[n]) = 2) =>
    LET c == LastIdx(obs, n, LAMBDA e : e.k = "in")
        q == LastIdx(obs, n, LAMBDA e : IsOutSes(e) /\ OutStage(e) = 1)
    IN /\ c > 0 /\ q > 0 /\ q < c
       /\ IsInSes(obs[c]) /\ obs[c].st = "negotiating" /\ obs[c].id = "right"
       /\ obs[n].enc = obs[c].enc /\ obs[n].comp = obs[c].comp
       /\ obs[n].enc \in EncSet(obs[q].eopts)
       /\ obs[n].comp \in CompSet(obs[q].copts)

(* after a confirmation everything travels under the confirmed encryption   *)
C09_UpgradeBeforeAuth(cfg, obs) ==
  \A n \in Idx(obs) : (IsOutSes(obs[n]) /\ OutStage(obs[n]) = 2) =>
    LET w == IF obs[n].enc = "tls" THEN "tls" ELSE "clear"
    IN \A m \in (n + 1) .. Len(obs) :
         /\ (IsOutSes(obs[m]) => obs[m].wire = w)
         /\ (obs[m].k = "auth" => obs[m].tenc = obs[n].enc)
         \* and what is authenticated was received under it
         /\ (obs[m].k = "auth" => \E c \in (n + 1) .. (m - 1) : IsInSes(obs[c]) /\ obs[c].st = "authenticating" /\ obs[c].wire = w)
         /\ ((obs[m].k = "ret" /\ obs[m].st = "established") => obs[m].tenc = obs[n].enc)

-----------------------------------------------------------------------------
(* C10 — a server that does not offer cleartext never authenticates over it  *)
C10_NoCleartextAuth(cfg, obs) ==
  ("none" \notin cfg.enc /\ cfg.enc \cap SupEnc(cfg.tk) # {}) =>
    \A n \in Idx(obs) :
      /\ ((IsOutSes(obs[n]) /\ obs[n].st \in {"authenticating", "established"})
            => obs[n].wire = "tls")
      /\ (obs[n].k = "auth" => obs[n].tenc # "none")
      /\ ((obs[n].k = "ret" /\ obs[n].st = "established") => obs[n].tenc # "none")
      /\ (obs[n].k = "cbEst" => obs[n].tenc # "none")

-----------------------------------------------------------------------------
(* C06 — data flows only while established (server role part)                *)
DataKinds == {"msg", "not", "req", "resp"}
C06_SendGuard(cfg, obs) ==
  /\ \A n \in Idx(obs) : (obs[n].k = "probe" /\ obs[n].st # "established") => obs[n].res = "err"
  /\ \A n \in Idx(obs) : (obs[n].k = "out" /\ obs[n].kind \in DataKinds) =>
        LET s == LastIdx(obs, n, LAMBDA e : e.k = "probe" /\ e.res # "err" /\ e.st = "established")
            es == LastIdx(obs, n, LAMBDA e : IsOutSes(e) /\ e.st = "established")
            f == LastIdx(obs, n, LAMBDA e : IsOutSes(e) /\ e.st \in {"finished", "failed"})
        IN s > 0 /\ es > 0 /\ es < s /\ f = 0

C06_RecvGuard(cfg, obs) ==
  /\ \A n \in Idx(obs) : obs[n].k = "deliver" =>
        LastIdx(obs, n, LAMBDA e : IsOutSes(e) /\ e.st = "established") > 0
  /\ \A n \in Idx(obs) :
        (obs[n].k = "in" /\ obs[n].kind \in DataKinds \cup {"hybrid"} /\
         LastIdx(obs, n, LAMBDA e : IsOutSes(e) /\ e.st = "established") = 0) =>
          \A m \in (n + 1) .. Len(obs) : /\ ~EstClaim(obs[m]) /\ obs[m].k # "deliver"
                                         \* the handshake is over: nothing but a refusal is said any more
                                         /\ (IsOutSes(obs[m]) => obs[m].st = "failed")

-----------------------------------------------------------------------------
(* C14 — a connection that fails to establish is released (Server flavour)   *)
Finalised(obs) == \E n \in Idx(obs) : obs[n].k = "end"
EverEstablished(obs) == \E n \in Idx(obs) : IsOutSes(obs[n]) /\ obs[n].st = "established"
PeerVanished(obs) == \E n \in Idx(obs) : obs[n].k = "in" /\ obs[n].kind = "eof"

C14_Released(cfg, obs) ==
  (cfg.flavour = "server" /\ Finalised(obs) /\ ~EverEstablished(obs)) =>
    /\ \A n \in Idx(obs) : obs[n].k \notin {"cbEst", "cbFin"}
    /\ (~PeerVanished(obs) => \E n \in Idx(obs) : obs[n].k = "closed")
    /\ \A n \in Idx(obs) : obs[n].k = "end" => obs[n].res = "quiet"
    \* a client that reset its connection instead of waiting for the refusal: the server side of it is released
    /\ \A n \in Idx(obs) : obs[n].k = "srvconn" => obs[n].res # "leaked"

-----------------------------------------------------------------------------
(* C08 — the client tolerates any server and reports establishment truthfully *)
(* (client role: `in` = what the raw server sent, `out` = what the client    *)
(* wrote, `ret` = result of EstablishSession and the channel's own report)   *)
(* C03: the authentication callback is given the credentials as the peer presented them *)
C03_AsPresented(obs) == \A n \in Idx(obs) : obs[n].k # "authargs"

C08_NoPanic(obs) == \A n \in Idx(obs) : obs[n].k # "panic"
C08_Returns(obs) == \E n \in Idx(obs) : obs[n].k = "ret"

C08_Truthful(obs) ==
  \A n \in Idx(obs) : obs[n].k = "ret" =>
    /\ ((obs[n].res = "nil" /\ obs[n].st = "established") =>
          LET c == LastIdx(obs, n, LAMBDA e : e.k = "in")
          IN /\ c > 0 /\ IsInSes(obs[c]) /\ obs[c].st = "established"
             /\ obs[n].id = obs[c].id /\ obs[n].to = obs[c].to /\ obs[n].frm = obs[c].frm
             /\ obs[n].op = "established")
    /\ ((obs[n].res = "nil" /\ obs[n].reason = "y") => obs[n].st = "established")

C08_EchoId(obs) ==
  \A n \in Idx(obs) : (IsOutSes(obs[n]) /\ LastIdx(obs, n, IsOutSes) > 0) =>
    LET c == LastIdx(obs, n, IsInSes)
    IN c > 0 => obs[n].id = obs[c].id

C08_CredsOnlyOnRequest(obs) ==
  \A n \in Idx(obs) : (IsOutSes(obs[n]) /\ (obs[n].scheme # "" \/ obs[n].cred # "")) =>
    LET p == LastIdx(obs, n, LAMBDA e : e.k = "in" \/ IsOutSes(e))
    IN p > 0 /\ IsInSes(obs[p]) /\ obs[p].st = "authenticating"

C08_ClosesOnTerminal(obs) ==
  \A n \in Idx(obs) :
    (/\ IsInSes(obs[n]) /\ obs[n].st \in {"finished", "failed"}
     /\ \A m \in (n + 1) .. Len(obs) : obs[m].k # "panic") =>
      \E m \in (n + 1) .. Len(obs) : obs[m].k = "closed"

(* C09, client role: once tls was confirmed to the client everything it writes is under tls *)
C09_ClientUpgrade(obs) ==
  \A n \in Idx(obs) :
    (IsInSes(obs[n]) /\ obs[n].st = "negotiating" /\ obs[n].enc = "tls" /\ obs[n].wire = "clear" /\
     LET p == LastIdx(obs, n, LAMBDA e : e.k = "in" \/ IsOutSes(e))
     IN p > 0 /\ IsOutSes(obs[p]) /\ obs[p].st = "negotiating") =>
      \A m \in (n + 1) .. Len(obs) :   \* "bin" = the TLS handshake records themselves
        (obs[m].k = "out" /\ obs[m].kind # "bin") => obs[m].wire = "tls"

(* C06, client role *)
C06_ClientSendGuard(obs) ==
  /\ \A n \in Idx(obs) : (obs[n].k = "probe" /\ obs[n].st # "established") => obs[n].res = "err"
  /\ \A n \in Idx(obs) : (obs[n].k = "out" /\ obs[n].kind \in DataKinds) =>
        LET s == LastIdx(obs, n, LAMBDA e : e.k = "probe" /\ e.res # "err" /\ e.st = "established")
            es == LastIdx(obs, n, LAMBDA e : IsInSes(e) /\ e.st = "established")
        IN s > 0 /\ es > 0 /\ es < s

=============================================================================
