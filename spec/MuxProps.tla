------------------------------ MODULE MuxProps ------------------------------
(* Property operators of C20 over what handlers, the listening goroutine and  *)
(* the peer observe.  A handler table is, per envelope kind, a sequence of    *)
(* [pred, out]: pred in nil/T/F/A/B (nil and T accept everything, A / B only  *)
(* envelopes of class a / b), out = what the handler returns.                 *)
(*   in(seq, kind, cls)   call(seq, kind, idx, same)   stop   finished(res)   *)
EXTENDS Integers, Sequences, FiniteSets

M0 == [k |-> "", seq |-> 0, kind |-> "", cls |-> "", idx |-> 0, res |-> ""]
Accepts(p, cls) == p \in {"nil", "T"} \/ (p = "A" /\ cls = "a") \/ (p = "B" /\ cls = "b")
FirstMatch(hs, cls) ==     \* index of the earliest handler accepting cls, 0 if none
  LET I == {i \in 1 .. Len(hs) : Accepts(hs[i].pred, cls)}
  IN IF I = {} THEN 0 ELSE CHOOSE i \in I : \A j \in I : i <= j
Idx(o) == 1 .. Len(o)
Calls(o, s) == {i \in Idx(o) : o[i].k = "call" /\ o[i].seq = s}
(* the dispatch loop stopped before position n: an earlier call hit a handler that errs *)
StoppedBefore(c, o, n) ==
  \E i \in 1 .. (n - 1) : o[i].k = "call" /\ c.tab[o[i].kind][o[i].idx].out = "err"

(* exactly the first matching handler, exactly once, with the envelope as received; *)
(* none if nothing matches                                                          *)
C20_FirstMatch(c, o) ==
  \A n \in Idx(o) : o[n].k = "in" =>
    LET f == FirstMatch(c.tab[o[n].kind], o[n].cls)
        cs == Calls(o, o[n].seq)
    IN IF f = 0 \/ StoppedBefore(c, o, n) THEN cs = {}
       ELSE /\ Cardinality(cs) = 1
            /\ \A i \in cs : i > n /\ o[i].idx = f /\ o[i].kind = o[n].kind /\ o[i].res = "same"

(* a handler error stops the loop: nothing is dispatched afterwards, and a server *)
(* finishes that session                                                          *)
C20_ErrorStops(c, o) ==
  \A n \in Idx(o) : (o[n].k = "call" /\ c.tab[o[n].kind][o[n].idx].out = "err") =>
    /\ \A m \in (n + 1) .. Len(o) : o[m].k # "call"
    /\ (\E e \in Idx(o) : o[e].k = "end") =>
         IF c.role = "server" THEN \E m \in (n + 1) .. Len(o) : o[m].k = "finished" /\ o[m].res = "server"
         ELSE \E m \in (n + 1) .. Len(o) : o[m].k = "stop"

(* without a handler error the session goes on to the end *)
C20_Continues(c, o) ==
  (\E e \in Idx(o) : o[e].k = "end") =>
    ((\A n \in Idx(o) : o[n].k = "call" => c.tab[o[n].kind][o[n].idx].out = "ok")
       => \E m \in Idx(o) : o[m].k = "finished" /\ o[m].res = "client")
=============================================================================
