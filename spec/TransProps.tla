----------------------------- MODULE TransProps -----------------------------
(* What channels rely on from any transport pair, over the observed history of  *)
(* operations  [op, side, res, v]:  send (v = its number among all sends),      *)
(* recv (res = "val", v = the value), close, conn.                              *)
EXTENDS Integers, Sequences, FiniteSets
Side == {"A", "B"}
Oth(x) == IF x = "A" THEN "B" ELSE "A"
TIdx(o) == 1 .. Len(o)
(* every value received was sent successfully by the other end before, and values arrive in  *)
(* the order sent, each at most once                                                         *)
T_Order(o) ==
  /\ \A i \in TIdx(o) : (o[i].op = "recv" /\ o[i].res = "val") =>
        \E j \in 1 .. (i - 1) : o[j].op = "send" /\ o[j].side = Oth(o[i].side) /\ o[j].v = o[i].v /\ o[j].res = "ok"
  /\ \A i, j \in TIdx(o) : (i < j /\ o[i].op = "recv" /\ o[j].op = "recv" /\ o[i].side = o[j].side
                              /\ o[i].res = "val" /\ o[j].res = "val") => o[i].v < o[j].v
(* an end that has not closed itself is told that the transport is closed only after it has  *)
(* received everything the other end had sent successfully                                   *)
OwnClose(o, x, i) == \E j \in 1 .. (i - 1) : o[j].op = "close" /\ o[j].side = x
T_NoLoss(o) ==
  \A i \in TIdx(o) : (o[i].op = "recv" /\ o[i].res = "err" /\ ~OwnClose(o, o[i].side, i)) =>
     \A j \in 1 .. (i - 1) : (o[j].op = "send" /\ o[j].side = Oth(o[i].side) /\ o[j].res = "ok") =>
        \E m \in 1 .. (i - 1) : o[m].op = "recv" /\ o[m].side = o[i].side /\ o[m].res = "val" /\ o[m].v = o[j].v
(* an end that closed refuses to send and to receive and reports itself as not connected     *)
(* (what a second Close returns is left to the implementation)                               *)
T_ClosedRefuses(o, kind) ==
  \A i \in TIdx(o) : (\E j \in 1 .. (i - 1) : o[j].op = "close" /\ o[j].side = o[i].side /\ o[j].res = "ok") =>
     CASE o[i].op = "send" -> o[i].res = "err"
       [] o[i].op = "recv" -> o[i].res = "err"
       [] o[i].op = "conn" -> o[i].res = "n"
       [] OTHER -> TRUE
(* once an end has closed, the other end is not left waiting: what it receives is what was still  *)
(* queued for it, or the error, never a timeout (a receive that timed out BEFORE the close poisons *)
(* a socket transport's decoder and is a different matter)                                        *)
T_CloseNoticed(o) ==
  \A i \in TIdx(o) : (o[i].op = "recv" /\ o[i].res = "timeout") =>
     ~\E j \in 1 .. (i - 1) : /\ o[j].op = "close" /\ o[j].res = "ok" /\ o[j].side = Oth(o[i].side)
                              /\ ~\E m \in 1 .. (j - 1) : o[m].op = "recv" /\ o[m].side = o[i].side /\ o[m].res = "timeout"
(* what both ends of a websocket connection report as its encryption follows the URL scheme:  *)
(* attr(side = "ws" | "wss", res = "cli:<e>,srv:<e>")                                        *)
DialEnc(scheme) == IF scheme = "wss" THEN "tls" ELSE "none"
T_EncryptionAgrees(o) ==
  \A i \in TIdx(o) : (o[i].op = "attr" /\ o[i].side \in {"ws", "wss"}) => o[i].res = "cli:" \o DialEnc(o[i].side) \o ",srv:" \o DialEnc(o[i].side)
(* an end that is asked to apply an encryption (the confirmed option of a negotiation) either has *)
(* it in force when it reports success, or refuses and stays as it was:                          *)
(* setenc(side = "ws" | "wss", res = "<end>:<asked>:<ok|err>:<Encryption() afterwards>")         *)
T_SetEncApplied(o) ==
  \A i \in TIdx(o) : (o[i].op = "setenc" /\ o[i].side \in {"ws", "wss"}) =>
     o[i].res \in {x \o ":" \o e \o ":ok:" \o e : x \in {"cli", "srv"}, e \in {"none", "tls"}}
                \cup {x \o ":" \o e \o ":err:" \o DialEnc(o[i].side) : x \in {"cli", "srv"}, e \in {"none", "tls"}}
(* closing a websocket transport ends the TCP connection under it, not only the websocket conversation *)
T_SocketReleased(o) == \A i \in TIdx(o) : (o[i].op = "attr" /\ o[i].side = "wsclose") => o[i].res = "closed"
=============================================================================
