-------------------------------- MODULE MuxMC --------------------------------
EXTENDS Mux, Json
CONSTANT Tier
Preds == {"nil", "T", "F", "A", "B"}
H == [pred : Preds, out : {"ok", "err"}]
MaxH == IF Tier = "thorough" THEN 3 ELSE 2
HSeqs == UNION {[1 .. n -> H] : n \in 0 .. MaxH}
(* thorough: at most one erring handler per table, to keep the product finite and useful *)
HOk(hs) == Tier # "thorough" \/ Cardinality({i \in DOMAIN hs : hs[i].out = "err"}) <= 1
MCTabs == {[role |-> r, focus |-> f, hs |-> hs] : r \in {"server", "client"}, f \in {"msg", "not", "req", "resp"},
                                                  hs \in {x \in HSeqs : HOk(x)}}
Sym == {[own |-> TRUE, cls |-> "a"], [own |-> TRUE, cls |-> "b"], [own |-> FALSE, cls |-> "a"]}
MaxI == IF Tier = "thorough" THEN 3 ELSE 2
MCInboxes == UNION {[1 .. n -> Sym] : n \in 1 .. MaxI}
Dump == Terminal => PrintT("CASE " \o ToJson([cfg |-> [role |-> cfg.role, focus |-> cfg.focus, hs |-> cfg.tab[cfg.focus]],
                                              inbox |-> inbox, obs |-> obs]))
=============================================================================
