------------------------------- MODULE HsObs -------------------------------
(* Observed-history monitor of the handshake family.  The trace is the      *)
(* concatenation of the histories recorded from the real code (one "cfg"    *)
(* record starts each case).  TLC walks it linearly, rebuilds `obs` exactly *)
(* as the harness logged it, and at the end of every case evaluates the     *)
(* very same property operators (HsProps) that are invariants of the        *)
(* models.  Every violated (case, operator) pair is printed as a BAD line;  *)
(* acceptance = the whole trace was consumed.                                *)
EXTENDS Integers, Sequences, TLC, Json, HsProps

CONSTANTS TraceFile, Role      \* Role = "server" | "client"

Trace == ndJsonDeserialize(TraceFile)

VARIABLES l, caseN, cfg, obs
vars == <<l, caseN, cfg, obs>>

NoCfg == [tk |-> "", enc |-> {}, comp |-> {}, schemes |-> {}, flavour |-> ""]
CfgOf(r) == [tk |-> r.tk, enc |-> EncSet(r.enc), comp |-> CompSet(r.comp),
             schemes |-> SchSet(r.schemes), flavour |-> r.flavour]

ServerOps(c, o) ==
  << <<"C03_EstablishedSoundness", C03_EstablishedSoundness(c, o)>>,
     <<"C03_AsPresented", C03_AsPresented(o)>>,
     <<"C07_EmitOrder", C07_EmitOrder(c, o)>>,
     <<"C07_OneIdOneSender", C07_OneIdOneSender(c, o)>>,
     <<"C07_Monotone", C07_Monotone(c, o)>>,
     <<"C07_NothingAfterFailed", C07_NothingAfterFailed(c, o)>>,
     <<"C07_FailClosed", C07_FailClosed(c, o)>>,
     <<"C09_OfferExact", C09_OfferExact(c, o)>>,
     <<"C09_ConfirmSound", C09_ConfirmSound(c, o)>>,
     <<"C09_UpgradeBeforeAuth", C09_UpgradeBeforeAuth(c, o)>>,
     <<"C10_NoCleartextAuth", C10_NoCleartextAuth(c, o)>>,
     <<"C06_SendGuard", C06_SendGuard(c, o)>>,
     <<"C06_RecvGuard", C06_RecvGuard(c, o)>>,
     <<"C14_Released", C14_Released(c, o)>>,
     <<"X_NoPanic", \A i \in 1 .. Len(o) : o[i].k # "panic">> >>

ClientOps(c, o) ==
  << <<"C08_NoPanic", C08_NoPanic(o)>>,
     <<"C08_Returns", C08_Returns(o)>>,
     <<"C08_Truthful", C08_Truthful(o)>>,
     <<"C08_EchoId", C08_EchoId(o)>>,
     <<"C08_CredsOnlyOnRequest", C08_CredsOnlyOnRequest(o)>>,
     <<"C08_ClosesOnTerminal", C08_ClosesOnTerminal(o)>>,
     <<"C09_ClientUpgrade", C09_ClientUpgrade(o)>>,
     <<"C06_ClientSendGuard", C06_ClientSendGuard(o)>> >>

Ops(c, o) == IF Role = "client" THEN ClientOps(c, o) ELSE ServerOps(c, o)

Report(n, c, o) ==
  LET ops == Ops(c, o)
  IN \A i \in 1 .. Len(ops) : ops[i][2] \/ PrintT(<<"BAD", n, ops[i][1]>>)

CaseEnds(i) == i = Len(Trace) \/ Trace[i + 1].k = "cfg"

Init == l = 1 /\ caseN = 0 /\ cfg = NoCfg /\ obs = <<>>

Next ==
  /\ l <= Len(Trace)
  /\ l' = l + 1
  /\ LET r == Trace[l] IN
     IF r.k = "cfg"
     THEN cfg' = CfgOf(r) /\ caseN' = r.n /\ obs' = <<>>
     ELSE obs' = Append(obs, r) /\ UNCHANGED <<cfg, caseN>>
  /\ (CaseEnds(l) => Report(caseN', cfg', obs'))

Spec == Init /\ [][Next]_vars

Consumed == TLCGet("stats").diameter - 1 = Len(Trace)
=============================================================================
