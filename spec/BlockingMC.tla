----------------------------- MODULE BlockingMC -----------------------------
EXTENDS Blocking, Json
Trs == {"tcp", "ws", "inproc"}
MCCases == {[op |-> o, tr |-> t] : o \in {"send", "receive", "accept"}, t \in Trs}
           \cup {[op |-> o, tr |-> t] : o \in {"chsend", "chsendnot", "chsendreq", "chsendresp", "pcmd"}, t \in Trs}
           \cup {[op |-> o, tr |-> t] : o \in {"estc", "ests", "finishc", "finishs", "fails"}, t \in Trs}
           \cup {[op |-> o, tr |-> "tcp"] : o \in {"esttlsc", "esttlss", "recvdrip"}}
Dump == (now = 0) => PrintT("CASE " \o ToJson([cfg |-> [op |-> cs.op, tr |-> cs.tr, ctx |-> kind, endat |-> ctxEndAt,
                                                        wait |-> WaitKind(cs), bound |-> Bound(cs, kind), lat |-> Latency,
                                                        blocks |-> IF Blocks(cs) THEN "y" ELSE "n"]]))
=============================================================================
