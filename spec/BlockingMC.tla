----------------------------- MODULE BlockingMC -----------------------------
EXTENDS Blocking, Json
MCCases == {[op |-> o, tr |-> t] : o \in {"send", "receive", "accept"}, t \in {"tcp", "ws", "inproc"}}
           \cup {[op |-> o, tr |-> t] : o \in {"chsend", "pcmd", "finishs", "fails"}, t \in {"tcp", "inproc"}}
           \cup {[op |-> o, tr |-> "tcp"] : o \in {"estc", "ests", "esttlsc", "esttlss", "finishc"}}
Dump == (now = 0) => PrintT("CASE " \o ToJson([cfg |-> [op |-> cs.op, tr |-> cs.tr, ctx |-> kind, endat |-> ctxEndAt,
                                                        wait |-> WaitKind(cs), bound |-> Bound(cs, kind), lat |-> Latency,
                                                        blocks |-> IF Blocks(cs) THEN "y" ELSE "n"]]))
=============================================================================
