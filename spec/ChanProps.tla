------------------------------ MODULE ChanProps ------------------------------
(* Property operators of the established-channel family (C04 delivery, C13     *)
(* teardown, C17 isolation) over what senders, handlers / stream readers and   *)
(* both parties of a session observe.                                          *)
(*  sendcall(g,i,kind) sent(g,i,kind) senderr(g) delivered(g,i,kind)           *)
(*  barrier | teardown | finsent     (after which delivery is no longer owed)  *)
(*  term(g = initiator, kind = how) peerstate(g = side, kind = state)          *)
(*  rcvdone(g) streams(g) conn(g) consumers(g)   end(n = goroutines left)      *)
EXTENDS Integers, Sequences, FiniteSets

H0 == [k |-> "", g |-> "", i |-> 0, kind |-> "", res |-> "", n |-> 0]
Idx(o) == 1 .. Len(o)
HasEnd(o) == \E i \in Idx(o) : o[i].k = "end"
Same(a, b) == a.g = b.g /\ a.i = b.i /\ a.kind = b.kind
Deliv(o) == {n \in Idx(o) : o[n].k = "delivered"}

(* nothing is delivered that was not handed to a send operation before *)
C04_NoFabrication(o) ==
  \A n \in Deliv(o) : \E m \in 1 .. (n - 1) : o[m].k \in {"sendcall", "sent"} /\ Same(o[m], o[n])
C04_AtMostOnce(o) ==
  \A n, m \in Deliv(o) : (n # m) => ~Same(o[n], o[m])
(* envelopes of one kind sent from one goroutine arrive in the order sent *)
C04_PerSenderOrder(o) ==
  \A n, m \in Deliv(o) : (n < m /\ o[n].g = o[m].g /\ o[n].kind = o[m].kind) => o[n].i < o[m].i
(* while the session stays established every envelope reported as sent is delivered *)
Cut(o) == LET C == {n \in Idx(o) : o[n].k \in {"barrier", "teardown", "finsent"}}
          IN IF C = {} THEN Len(o) + 1 ELSE CHOOSE n \in C : \A m \in C : n <= m
C04_AllDelivered(o) ==
  \A n \in Idx(o) : (o[n].k = "sent" /\ n < Cut(o)) => \E m \in Deliv(o) : Same(o[m], o[n])

(* the model's own end-of-run check *)
C13_ModelCleanEnd(o) ==
  (\E n \in Idx(o) : o[n].k = "finsent") =>
    /\ \E n \in Idx(o) : o[n].k = "end" /\ o[n].kind = "finished" /\ o[n].g = "done"
    /\ \E n \in Idx(o) : o[n].k = "closedstreams"

(* C13 on a real session: whoever ends it, the peer sees the terminal session and state, both *)
(* sides' receiver-done signals and streams are closed, consumers return, the initiator's     *)
(* connection is closed, and nothing is left behind once the observer closed its channel      *)
Other(s) == IF s = "S" THEN "C" ELSE "S"
Has(o, k, g) == \E n \in Idx(o) : o[n].k = k /\ o[n].g = g
Term(o) == o[CHOOSE n \in Idx(o) : o[n].k = "term"]
(* the peer observes the terminal session envelope and moves to the corresponding state *)
C13_PeerObserves(o) ==
  (HasEnd(o) /\ \E n \in Idx(o) : o[n].k = "term") =>
    LET want == IF Term(o).kind = "fail" THEN "failed" ELSE "finished"
    IN \E n \in Idx(o) : o[n].k = "peerstate" /\ o[n].g = Other(Term(o).g) /\ o[n].kind = want
(* a client that finishes its session and keeps consuming (its dispatch loop runs) is itself the  *)
(* observer of the terminal envelope, the server's 'finished', however much traffic of the server *)
(* is in flight in front of it: it ends in the finished state.  Evaluated on the in-process       *)
(* transport (peerstate.res = transport kind): over sockets the same observation is open finding   *)
(* F-C13-7 (the server's close resets the connection under the client's unread data)              *)
C13_InitiatorObserves(o) ==
  (HasEnd(o) /\ \E n \in Idx(o) : o[n].k = "term") =>
    ((Term(o).g = "C" /\ Term(o).kind = "finish") =>
       \A n \in Idx(o) : (o[n].k = "peerstate" /\ o[n].g = "C" /\ o[n].res = "inproc") => o[n].kind = "finished")
C13_CleanEnd(o) ==
  (HasEnd(o) /\ \E n \in Idx(o) : o[n].k = "term") =>
    LET ini == Term(o).g
    IN /\ Has(o, "rcvdone", "S") /\ Has(o, "rcvdone", "C")
       /\ Has(o, "streams", "S") /\ Has(o, "streams", "C")
       /\ Has(o, "consumers", "S") /\ Has(o, "consumers", "C")
       /\ Has(o, "conn", ini)
       /\ ~Has(o, "stuck", "term")      \* the terminating call returns (it is given 6 s beyond its own context)
C13_NoLeak(o) == \A n \in Idx(o) : o[n].k = "end" => o[n].n = 0
C13_NoCrash(o) == \A n \in Idx(o) : o[n].k # "panic"

(* C06 in the established phase: after its terminal session envelope the terminating side puts *)
(* nothing but session envelopes on the wire (wire(g, n = data envelopes after it)), and a      *)
(* side for which the session is over refuses to send (latesend(g, kind, res))                  *)
C06_QuietAfterEnd(o) == \A n \in Idx(o) : o[n].k = "wire" => o[n].n = 0
C06_NoSendAfterEnd(o) == \A n \in Idx(o) : o[n].k = "latesend" => o[n].res = "err"

(* C17: every dispatch carries the identity of the session whose connection delivered the  *)
(* envelope, and a reply sent through the handler's sender lands on that session's client  *)
(*   dispatch(g = client that sent it, res = "own" | "foreign" context)                    *)
(*   unserved(g = client whose connection was made and never became a session of its own) *)
(*   reply(g = client that received it, res = "own" | "foreign")   ids(res = "distinct"|..)*)
C17_Isolated(o) ==
  /\ \A n \in Idx(o) : o[n].k \in {"dispatch", "reply"} => o[n].res = "own"
  /\ \A n \in Idx(o) : o[n].k # "unserved"      \* every connection gets a channel of its own
  /\ \A n \in Idx(o) : o[n].k = "ids" => o[n].res = "distinct"
=============================================================================
