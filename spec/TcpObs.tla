------------------------------- MODULE TcpObs -------------------------------
(* Observed-history monitor of the TCP byte-path family: walks the histories *)
(* recorded from the real transport (one "cfg" record starts each case) and  *)
(* evaluates the TcpProps operators at the end of every case; every violated *)
(* (case, operator) pair is printed as a BAD line.                           *)
EXTENDS Integers, Sequences, TLC, Json, TcpProps

CONSTANTS TraceFile
Trace == ndJsonDeserialize(TraceFile)

VARIABLES l, caseN, cfg, obs
vars == <<l, caseN, cfg, obs>>

NoCfg == [lens |-> <<>>, U |-> 1, L |-> 0, faultfree |-> "n"]
CfgOf(r) == [lens |-> r.lens, U |-> r.U, L |-> r.L, faultfree |-> r.faultfree]

Ops(c, o) ==
  << <<"C12_StreamIntegrity", C12_StreamIntegrity(c, o)>>,
     <<"C12_NoSilentLoss", C12_NoSilentLoss(c, o)>>,
     <<"C12_WireClean", C12_WireClean(c, o)>>, <<"C12_NoPanic", C12_NoPanic(o)>>,
     <<"C16_PerReceiveBudget", C16_PerReceiveBudget(c, o)>>,
     <<"C16_RejectHuge", C16_RejectHuge(c, o)>>,
     <<"C16_AcceptSmall", C16_AcceptSmall(c, o)>> >>

Report(n, c, o) ==
  LET ops == Ops(c, o)
  IN \A i \in 1 .. Len(ops) : ops[i][2] \/ PrintT(<<"BAD", n, ops[i][1]>>)

CaseEnds(i) == i = Len(Trace) \/ Trace[i + 1].k = "cfg"

Init == l = 1 /\ caseN = 0 /\ cfg = NoCfg /\ obs = <<>>
Next ==
  /\ l <= Len(Trace)
  /\ l' = l + 1
  /\ LET r == Trace[l] IN
     IF r.k = "cfg"
     THEN cfg' = CfgOf(r) /\ caseN' = r.n /\ obs' = <<>>
     ELSE obs' = Append(obs, r) /\ UNCHANGED <<cfg, caseN>>
  /\ (CaseEnds(l) => Report(caseN', cfg', obs'))
Spec == Init /\ [][Next]_vars
Consumed == TLCGet("stats").diameter - 1 = Len(Trace)
=============================================================================
