------------------------------ MODULE CodecObs ------------------------------
(* Observed-history monitor of the codec family (C01, C02, C11): walks the   *)
(* results recorded from the real codec (one "cfg" record starts each case)  *)
(* and evaluates the property operators at the end of every case.            *)
EXTENDS Integers, Sequences, TLC, Json

CONSTANTS TraceFile
Trace == ndJsonDeserialize(TraceFile)

VARIABLES l, caseN, obs
vars == <<l, caseN, obs>>

All(o, kind, P(_)) == \A i \in 1 .. Len(o) : o[i].k = kind => P(o[i])

(* C01: same kind and equal field values through every decoding path *)
C01_KindPreserved(o) == All(o, "rt", LAMBDA e : e.kind2 = e.kind)
C01_Equal(o)         == All(o, "rt", LAMBDA e : e.equal = "y")
(* C01: the text form of a well-formed value parses back to it *)
C01_TextRoundTrip(o) == All(o, "text", LAMBDA e : e.wf = "y" => e.rt = "y")
(* C02: decoding never panics; whatever is accepted re-encodes to an equal envelope *)
C02_NoPanic(o) == All(o, "mut", LAMBDA e : e.outcome # "panic" /\ e.stable # "panic")
C02_Stable(o)  == All(o, "mut", LAMBDA e : e.outcome = "ok" => e.stable = "y")
(* C11: replies are addressed to the sender (pp, else from), originate at the *)
(* request's destination, are correlated, and survive the wire                *)
C11_Addressed(o)  == All(o, "reply", LAMBDA e : e.to = e.expto /\ e.frm = e.expfrm)
C11_Correlated(o) == All(o, "reply", LAMBDA e :
                       /\ e.idok = "y" /\ e.method = "y" /\ e.reason = "y"
                       /\ (e.kind \in {"success", "successRes"} => e.status = "success")
                       /\ (e.kind = "failure" => e.status = "failure")
                       /\ (e.kind = "successRes" => e.res = "y" /\ e.rtype = "y"))
C11_WireOk(o)     == All(o, "reply", LAMBDA e : e.wire = "ok")
X_Harness(o)      == \A i \in 1 .. Len(o) : o[i].k # "harness"

Ops(o) ==
  << <<"C01_KindPreserved", C01_KindPreserved(o)>>, <<"C01_Equal", C01_Equal(o)>>,
     <<"C01_TextRoundTrip", C01_TextRoundTrip(o)>>,
     <<"C02_NoPanic", C02_NoPanic(o)>>, <<"C02_Stable", C02_Stable(o)>>,
     <<"C11_Addressed", C11_Addressed(o)>>, <<"C11_Correlated", C11_Correlated(o)>>,
     <<"C11_WireOk", C11_WireOk(o)>>, <<"X_Harness", X_Harness(o)>> >>

Report(n, o) ==
  LET ops == Ops(o)
  IN \A i \in 1 .. Len(ops) : ops[i][2] \/ PrintT(<<"BAD", n, ops[i][1]>>)

CaseEnds(i) == i = Len(Trace) \/ Trace[i + 1].k = "cfg"
Init == l = 1 /\ caseN = 0 /\ obs = <<>>
Next ==
  /\ l <= Len(Trace)
  /\ l' = l + 1
  /\ LET r == Trace[l] IN
     IF r.k = "cfg" THEN caseN' = r.n /\ obs' = <<>>
     ELSE obs' = Append(obs, r) /\ UNCHANGED caseN
  /\ (CaseEnds(l) => Report(caseN', obs'))
Spec == Init /\ [][Next]_vars
Consumed == TLCGet("stats").diameter - 1 = Len(Trace)
=============================================================================
