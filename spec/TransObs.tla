------------------------------ MODULE TransObs ------------------------------
(* Monitor of the transport contract (TransProps) on histories of operations  *)
(* executed on real transport pairs; one "cfg" record (n, kind) per case.     *)
EXTENDS Integers, Sequences, TLC, Json, TransProps
CONSTANTS TraceFile
Trace == ndJsonDeserialize(TraceFile)
VARIABLES l, caseN, kind, obs
vars == <<l, caseN, kind, obs>>
Ops(kd, o) == << <<"C04_TransportOrder", T_Order(o)>>, <<"C04_TransportNoLoss", T_NoLoss(o)>>,
                 <<"C13_TransportClosed", T_ClosedRefuses(o, kd)>>, <<"C13_TransportCloseNoticed", T_CloseNoticed(o)>>,
                 <<"C14_TransportCloseNoticed", T_CloseNoticed(o)>>, <<"C14_TransportSocketReleased", T_SocketReleased(o)>>,
                 <<"C13_TransportSocketReleased", T_SocketReleased(o)>>,
                 <<"C09_TransportEncryption", T_EncryptionAgrees(o)>>,
                 <<"C09_TransportSetEncApplied", T_SetEncApplied(o)>> >>
Report(n, kd, o) == LET ops == Ops(kd, o) IN \A i \in 1 .. Len(ops) : ops[i][2] \/ PrintT(<<"BAD", n, ops[i][1]>>)
CaseEnds(i) == i = Len(Trace) \/ Trace[i + 1].k = "cfg"
Init == l = 1 /\ caseN = 0 /\ kind = "" /\ obs = <<>>
Next ==
  /\ l <= Len(Trace)
  /\ l' = l + 1
  /\ LET r == Trace[l] IN
     IF r.k = "cfg" THEN caseN' = r.n /\ kind' = r.kind /\ obs' = <<>>
     ELSE obs' = Append(obs, r) /\ UNCHANGED <<caseN, kind>>
  /\ (CaseEnds(l) => Report(caseN', kind', obs'))
Spec == Init /\ [][Next]_vars
Consumed == TLCGet("stats").diameter - 1 = Len(Trace)
=============================================================================
