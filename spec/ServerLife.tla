----------------------------- MODULE ServerLife -----------------------------
(* Start / serve / stop of a Server, shaped like server.go:                  *)
(*   ListenAndServe    bind listeners, one acceptTransports goroutine each,  *)
(*                     one consumeTransports goroutine, wait for all of them *)
(*   acceptTransports  loop: listener.Accept(ctx) ; select {ctx | queue<-t}  *)
(*   consumeTransports loop: select {ctx | t := <-queue} ; go handleChannel  *)
(*   handleChannel     EstablishSession ; Established cb ; dispatch loop ;   *)
(*                     deferred FinishSession ; Finished cb                  *)
(*   Close             cancel ; close listeners ; (as written) close(queue)  *)
(* A `select` is a nondeterministic choice among the arms that are ready,    *)
(* including the arms that panic in Go (send on a closed channel; a receive  *)
(* from a closed channel yields nil, which newChannel refuses by panicking). *)
(* Toggles: FALSE = code as written, TRUE = repaired.                        *)
EXTENDS Integers, Sequences, FiniteSets, TLC, SrvProps

CONSTANTS CloseAfter,      \* set of step counts before which Close does not start (steers simulation)
          Lis,             \* listeners
          Conns,           \* connections that may arrive
          QCap,            \* capacity of the transport queue (Backlog)
          FixQueueClose,   \* Close no longer closes the queue under its users
          FixServeReturn   \* ListenAndServe reports ErrServerClosed whenever Close stopped it

VARIABLES las,        \* "init" | "serving" | "returned"
          ctxDone, lisOpen, qClosed, queue, backlog,
          acc,        \* listener -> [pc, holds]   pc: "accept" | "enqueue" | "exit"
          accErr,     \* first error returned by a goroutine of the group ("" = none)
          cons,       \* "select" | "exit"
          sess,       \* connection -> "none" | "hs" | "est" | "listen" | "finish" | "done"
          outcome,    \* connection -> "est" | "drop" | "failed" | "err" | "stall"   (how its handshake ends;
                      \*   "drop" = it is established and the client later goes away without finishing;
                      \*   "gone" = a first envelope in the wrong state from a client that leaves at once: the
                      \*            handshake returns without error, the session neither established nor failed;
                      \*   a stalled client never answers: only the cancelled serve context ends it)
          closer,     \* "idle" | "c1" | "c2" | "done"
          closeAt,    \* Close starts after this many steps at the earliest
          panicked, hist, obs
vars == <<las, ctxDone, lisOpen, qClosed, queue, backlog, acc, accErr, cons, sess, outcome, closer, closeAt, panicked, hist, obs>>

Ev(k) == [S0 EXCEPT !.k = k]
Step(p, a) == hist' = Append(hist, [p |-> p, a |-> a])
Note(e) == obs' = Append(obs, e)
Alive == ~panicked
FirstErr(e) == accErr' = IF accErr = "" THEN e ELSE accErr

(* ListenAndServe: listeners bound, goroutines spawned *)
Start ==
  /\ Alive /\ las = "init"
  /\ las' = "serving"
  /\ Step("las", "Start") /\ Note(Ev("serving"))
  /\ UNCHANGED <<ctxDone, lisOpen, qClosed, queue, backlog, acc, accErr, cons, sess, outcome, closer, closeAt, panicked>>

(* a client connects to listener l *)
Arrive(c, l) ==
  /\ Alive /\ las = "serving" /\ lisOpen[l] /\ sess[c] = "none" /\ \A m \in Lis : c \notin Range(backlog[m])
  /\ c \notin Range(queue) /\ \A m \in Lis : acc[m].holds # c
  /\ backlog' = [backlog EXCEPT ![l] = Append(@, c)]
  /\ Step(c, "Arrive:" \o l) /\ Note([Ev("arrive") EXCEPT !.s = c, !.l = l])
  /\ UNCHANGED <<las, ctxDone, lisOpen, qClosed, queue, acc, accErr, cons, sess, outcome, closer, closeAt, panicked>>

(* listener.Accept(ctx): not started | select {ctx.Done | listener done | connection} *)
AccAccept(l, arm) ==
  /\ Alive /\ las = "serving" /\ acc[l].pc = "accept"
  /\ CASE arm = "notstarted" -> ~lisOpen[l]
       [] arm = "ctx" -> lisOpen[l] /\ ctxDone
       [] arm = "conn" -> lisOpen[l] /\ backlog[l] # <<>>
       [] OTHER -> FALSE
  /\ IF arm = "conn"
     THEN /\ acc' = [acc EXCEPT ![l] = [pc |-> "enqueue", holds |-> Head(backlog[l])]]
          /\ backlog' = [backlog EXCEPT ![l] = Tail(@)]
          /\ UNCHANGED accErr
     ELSE /\ acc' = [acc EXCEPT ![l] = [pc |-> "exit", holds |-> ""]]
          /\ FirstErr(arm) /\ UNCHANGED backlog
  /\ Step("acc:" \o l, "Accept:" \o arm) /\ UNCHANGED obs
  /\ UNCHANGED <<las, ctxDone, lisOpen, qClosed, queue, cons, sess, outcome, closer, closeAt, panicked>>

(* select { case <-ctx.Done(): return ctx.Err() ; case queue <- transport: } *)
AccEnqueue(l, arm) ==
  /\ Alive /\ acc[l].pc = "enqueue"
  /\ CASE arm = "ctx" -> ctxDone
       [] arm = "send" -> ~qClosed /\ Len(queue) < QCap
       [] arm = "panic" -> qClosed                       \* send on closed channel
       [] OTHER -> FALSE
  /\ CASE arm = "ctx" -> /\ acc' = [acc EXCEPT ![l] = [pc |-> "exit", holds |-> ""]]
                         /\ FirstErr("ctx") /\ UNCHANGED <<queue, panicked>> /\ UNCHANGED obs
       [] arm = "send" -> /\ queue' = Append(queue, acc[l].holds)
                          /\ acc' = [acc EXCEPT ![l] = [pc |-> "accept", holds |-> ""]]
                          /\ UNCHANGED <<accErr, panicked>> /\ UNCHANGED obs
       [] OTHER -> /\ panicked' = TRUE /\ Note([Ev("panic") EXCEPT !.res = "send on closed channel"])
                   /\ UNCHANGED <<acc, accErr, queue>>
  /\ Step("acc:" \o l, "Enqueue:" \o arm)
  /\ UNCHANGED <<las, ctxDone, lisOpen, qClosed, backlog, cons, sess, outcome, closer, closeAt>>

(* select { case <-ctx.Done(): return ; case t := <-queue: go handleChannel } *)
ConsSelect(arm) ==
  /\ Alive /\ las = "serving" /\ cons = "select"
  /\ CASE arm = "ctx" -> ctxDone
       [] arm = "recv" -> queue # <<>>
       [] arm = "panic" -> qClosed /\ queue = <<>>        \* nil transport -> newChannel panics
       [] OTHER -> FALSE
  /\ CASE arm = "ctx" -> cons' = "exit" /\ UNCHANGED <<queue, sess, panicked, obs>>
       [] arm = "recv" -> /\ sess' = [sess EXCEPT ![Head(queue)] = "hs"] /\ queue' = Tail(queue)
                          /\ UNCHANGED <<cons, panicked, obs>>
       [] OTHER -> /\ panicked' = TRUE /\ Note([Ev("panic") EXCEPT !.res = "transport cannot be nil"])
                   /\ UNCHANGED <<cons, queue, sess>>
  /\ Step("cons", "Select:" \o arm)
  /\ UNCHANGED <<las, ctxDone, lisOpen, qClosed, backlog, acc, accErr, outcome, closer, closeAt>>

(* handleChannel: the handshake ends one way or another (a cancelled serve   *)
(* context makes it fail with an error)                                      *)
SessHandshake(c) ==
  /\ Alive /\ sess[c] = "hs"
  /\ (outcome[c] = "stall" => ctxDone)
  /\ LET o == IF ctxDone THEN "err" ELSE outcome[c] IN
     /\ sess' = [sess EXCEPT ![c] = IF o \in {"est", "drop"} THEN "est" ELSE "done"]
     /\ Note([Ev("hs") EXCEPT !.s = c, !.res = IF o = "drop" THEN "est" ELSE IF o = "gone" THEN "failed" ELSE o])
  /\ Step("sess:" \o c, "Handshake")
  /\ UNCHANGED <<las, ctxDone, lisOpen, qClosed, queue, backlog, acc, accErr, cons, outcome, closer, closeAt, panicked>>

SessCbEstablished(c) ==
  /\ Alive /\ sess[c] = "est"
  /\ sess' = [sess EXCEPT ![c] = "listen"]
  /\ Note([Ev("cbEst") EXCEPT !.s = c]) /\ Step("sess:" \o c, "CbEstablished")
  /\ UNCHANGED <<las, ctxDone, lisOpen, qClosed, queue, backlog, acc, accErr, cons, outcome, closer, closeAt, panicked>>

(* the dispatch loop ends: serve context cancelled, or the client went away / asked to finish *)
SessListenEnds(c, why) ==
  /\ Alive /\ sess[c] = "listen"
  /\ (why = "ctx" => ctxDone)
  /\ IF why = "client" /\ outcome[c] = "drop"
     THEN sess' = [sess EXCEPT ![c] = "finishgone"] /\ Note([Ev("gone") EXCEPT !.s = c])   \* the connection is dropped
     ELSE sess' = [sess EXCEPT ![c] = "finish"] /\ UNCHANGED obs
  /\ Step("sess:" \o c, "ListenEnds:" \o why)
  /\ UNCHANGED <<las, ctxDone, lisOpen, qClosed, queue, backlog, acc, accErr, cons, outcome, closer, closeAt, panicked>>

(* deferred: FinishSession (the client observes finished, unless it is gone), then the Finished callback *)
SessFinish(c) ==
  /\ Alive /\ sess[c] \in {"finish", "finishgone"}
  /\ sess' = [sess EXCEPT ![c] = "done"]
  /\ obs' = IF sess[c] = "finish" THEN obs \o <<[Ev("finished") EXCEPT !.s = c], [Ev("cbFin") EXCEPT !.s = c]>>
                                  ELSE Append(obs, [Ev("cbFin") EXCEPT !.s = c])
  /\ Step("sess:" \o c, "Finish")
  /\ UNCHANGED <<las, ctxDone, lisOpen, qClosed, queue, backlog, acc, accErr, cons, outcome, closer, closeAt, panicked>>

(* Close: three steps, each at its own moment *)
Close1 ==
  /\ Alive /\ las = "serving" /\ closer = "idle" /\ Len(hist) >= closeAt
  /\ ctxDone' = TRUE /\ closer' = "c1"
  /\ Step("close", "Cancel") /\ Note(Ev("closecall"))
  /\ UNCHANGED <<las, lisOpen, qClosed, queue, backlog, acc, accErr, cons, sess, outcome, closeAt, panicked>>
Close2 ==
  /\ Alive /\ closer = "c1"
  /\ lisOpen' = [l \in Lis |-> FALSE] /\ closer' = "c2"
  /\ Step("close", "Listeners") /\ UNCHANGED obs
  /\ UNCHANGED <<las, ctxDone, qClosed, queue, backlog, acc, accErr, cons, sess, outcome, closeAt, panicked>>
Close3 ==
  /\ Alive /\ closer = "c2"
  /\ qClosed' = IF FixQueueClose THEN qClosed ELSE TRUE
  /\ closer' = "done"
  /\ Step("close", "Queue") /\ Note(Ev("closeret"))
  /\ UNCHANGED <<las, ctxDone, lisOpen, queue, backlog, acc, accErr, cons, sess, outcome, closeAt, panicked>>

(* eg.Wait() returned: every acceptor and the consumer are gone *)
Return ==
  /\ Alive /\ las = "serving" /\ cons = "exit" /\ \A l \in Lis : acc[l].pc = "exit"
  /\ las' = "returned"
  /\ LET closedErr == IF FixServeReturn THEN ctxDone /\ closer # "idle"
                      ELSE accErr \in {"", "ctx"}        \* errors.Is(err, ctx.Err())
     IN Note([Ev("lasret") EXCEPT !.res = IF closedErr THEN "closed" ELSE accErr])
  /\ Step("las", "Return")
  /\ UNCHANGED <<ctxDone, lisOpen, qClosed, queue, backlog, acc, accErr, cons, sess, outcome, closer, closeAt, panicked>>

End ==
  /\ (panicked \/ (las = "returned" /\ \A c \in Conns : sess[c] \in {"none", "done"}))
  /\ ~HasEnd(obs)
  /\ Note([Ev("end") EXCEPT !.res = IF panicked THEN "crash" ELSE "quiet"])
  /\ Step("drv", "End")
  /\ UNCHANGED <<las, ctxDone, lisOpen, qClosed, queue, backlog, acc, accErr, cons, sess, outcome, closer, closeAt, panicked>>

Init == /\ las = "init" /\ ctxDone = FALSE /\ lisOpen = [l \in Lis |-> TRUE] /\ qClosed = FALSE
        /\ queue = <<>> /\ backlog = [l \in Lis |-> <<>>]
        /\ acc = [l \in Lis |-> [pc |-> "accept", holds |-> ""]] /\ accErr = ""
        /\ cons = "select" /\ sess = [c \in Conns |-> "none"]
        /\ outcome \in [Conns -> {"est", "drop", "failed", "gone", "err", "stall"}]
        /\ closer = "idle" /\ closeAt \in CloseAfter /\ panicked = FALSE /\ hist = <<>> /\ obs = <<>>

Next == /\ ~HasEnd(obs)
        /\ \/ Start \/ Close1 \/ Close2 \/ Close3 \/ Return \/ End
           \/ \E c \in Conns, l \in Lis : Arrive(c, l)
           \/ \E l \in Lis, a \in {"notstarted", "ctx", "conn"} : AccAccept(l, a)
           \/ \E l \in Lis, a \in {"ctx", "send", "panic"} : AccEnqueue(l, a)
           \/ \E a \in {"ctx", "recv", "panic"} : ConsSelect(a)
           \/ \E c \in Conns : SessHandshake(c) \/ SessCbEstablished(c) \/ SessFinish(c)
                               \/ \E w \in {"ctx", "client"} : SessListenEnds(c, w)
Spec == Init /\ [][Next]_vars
Terminal == HasEnd(obs)

P_C18 == /\ C18_NoPanic(obs) /\ C18_CallbacksExact(obs)
         /\ (Terminal => C18_ServeReturnsClosed(obs) /\ C18_AllFinished(obs))
TypeOK == las \in {"init", "serving", "returned"} /\ cons \in {"select", "exit"} /\ Len(queue) <= QCap
=============================================================================
