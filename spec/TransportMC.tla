----------------------------- MODULE TransportMC -----------------------------
EXTENDS Transport, Json
Compact(e) == [op |-> e.op, side |-> e.side, res |-> e.res, v |-> e.v]
Dump == (Len(obs) = MaxOps) =>
          PrintT("CASE " \o ToJson([cfg |-> [kind |-> Kind, k |-> K], obs |-> [i \in 1 .. Len(obs) |-> Compact(obs[i])]]))
=============================================================================
