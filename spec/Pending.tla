------------------------------- MODULE Pending -------------------------------
(* The pending-command table of a channel, at the lock-region granularity of *)
(* channel.go:                                                               *)
(*   processCommand          Register (one write-locked region: reject if    *)
(*                           present, else insert) ; send ; Wait (select on  *)
(*                           context end | reply) ; deferred Cleanup (a      *)
(*                           separate write-locked region: delete by id)     *)
(*   trySubmitCommandResult  Lookup (read-locked) ; Delete (separate write-  *)
(*                           locked region) ; Reply (1-slot channel send)    *)
(* Callers may share an identifier on purpose; the peer answers with any id, *)
(* in any order, any number of times (duplicates, unknown ids, late).        *)
(* A table entry is identified by the caller that owns its reply channel.    *)
(* Toggles: FALSE = code as written, TRUE = repaired.                        *)
EXTENDS Integers, Sequences, FiniteSets, TLC, PendingProps

CONSTANTS Callers, IdOf,      \* IdOf : Callers -> identifiers
          RespIds,            \* identifiers the peer may answer with
          MaxResp,            \* how many responses the peer sends
          Cancellable,        \* callers whose context may end
          FixLookupDelete,    \* lookup and delete in one locked region
          FixOwnCleanup       \* the deferred cleanup removes only the caller's own entry

VARIABLES pc,        \* caller -> "idle" | "wait" | "clean" | "done"
          table,     \* id -> owner of the reply channel registered under it
          chan,      \* caller -> uid of the response in its reply channel (0 = empty)
          ctxEnded,  \* caller -> BOOLEAN
          got,       \* caller -> what its select yielded (0 = context error, -1 = the send failed)
          poisoned,  \* the transport's encoder keeps its first write error (TCP, as written)
          rpc, rcur, rch,   \* receiver: step, current response [uid, id], looked-up owner
          nresp, stream, hist, obs
vars == <<pc, table, chan, ctxEnded, got, poisoned, rpc, rcur, rch, nresp, stream, hist, obs>>

Ev(k) == [Q0 EXCEPT !.k = k]
Step(p, a, arg) == hist' = Append(hist, [p |-> p, a |-> a, arg |-> arg])
Has(id) == id \in DOMAIN table
Without(t, id) == [x \in DOMAIN t \ {id} |-> t[x]]
With(t, id, c) == [x \in DOMAIN t \cup {id} |-> IF x = id THEN c ELSE t[x]]

(* processCommand up to the wait: register, or reject a duplicate, then send *)
Register(c) ==
  /\ pc[c] = "idle"
  /\ Step(c, "Register", "")
  /\ IF Has(IdOf[c])
     THEN /\ pc' = [pc EXCEPT ![c] = "done"]
          /\ obs' = obs \o <<[Ev("call") EXCEPT !.c = c, !.id = IdOf[c]],
                             [Ev("ret") EXCEPT !.c = c, !.res = "inuse"]>>
          /\ UNCHANGED <<table, got, poisoned>>
     ELSE /\ table' = With(table, IdOf[c], c)
          /\ IF ctxEnded[c] \/ poisoned
             THEN \* the send fails (its context has ended; or the encoder repeats its first error)
                  /\ pc' = [pc EXCEPT ![c] = "clean"]
                  /\ got' = [got EXCEPT ![c] = IF ctxEnded[c] THEN 0 ELSE -1]   \* its own context's error, or the stale one
                  /\ poisoned' = TRUE
                  /\ obs' = Append(obs, [Ev("call") EXCEPT !.c = c, !.id = IdOf[c]])
             ELSE /\ pc' = [pc EXCEPT ![c] = "wait"]
                  /\ obs' = obs \o <<[Ev("call") EXCEPT !.c = c, !.id = IdOf[c]],
                                     [Ev("reqseen") EXCEPT !.c = c, !.id = IdOf[c]]>>
                  /\ UNCHANGED <<got, poisoned>>
  /\ UNCHANGED <<chan, ctxEnded, rpc, rcur, rch, nresp, stream>>

CtxEnd(c) ==
  /\ c \in Cancellable /\ pc[c] \in {"idle", "wait"} /\ ~ctxEnded[c]
  /\ ctxEnded' = [ctxEnded EXCEPT ![c] = TRUE]
  /\ Step(c, "CtxEnd", "")
  /\ obs' = Append(obs, [Ev("ctxend") EXCEPT !.c = c])
  /\ UNCHANGED <<pc, table, chan, got, poisoned, rpc, rcur, rch, nresp, stream>>

(* the select: exactly one arm is ready (both ready = Go picks at random; those *)
(* schedules are left to the free runs)                                         *)
Wait(c) ==
  /\ pc[c] = "wait"
  /\ (chan[c] # 0) # ctxEnded[c]
  /\ pc' = [pc EXCEPT ![c] = "clean"]
  /\ Step(c, "Wait", "")
  /\ got' = [got EXCEPT ![c] = chan[c]]
  /\ UNCHANGED <<table, chan, ctxEnded, poisoned, rpc, rcur, rch, nresp, stream, obs>>

(* deferred: delete(processingCmds, id) *)
Cleanup(c) ==
  /\ pc[c] = "clean"
  /\ pc' = [pc EXCEPT ![c] = "done"]
  /\ table' = IF Has(IdOf[c]) /\ (~FixOwnCleanup \/ table[IdOf[c]] = c)
              THEN Without(table, IdOf[c]) ELSE table
  /\ Step(c, "Cleanup", "")
  \* processCommand returns only now
  /\ obs' = Append(obs, IF got[c] > 0
                        THEN [Ev("ret") EXCEPT !.c = c, !.res = "resp", !.uid = got[c], !.id = IdOf[c]]
                        ELSE IF got[c] = 0 THEN [Ev("ret") EXCEPT !.c = c, !.res = "ctxerr"]
                        ELSE [Ev("ret") EXCEPT !.c = c, !.res = "senderr"])
  /\ UNCHANGED <<chan, ctxEnded, got, poisoned, rpc, rcur, rch, nresp, stream>>

(* the peer writes a response; the receiver takes it and looks the id up *)
RcvLookup(id) ==
  /\ rpc = "idle" /\ nresp < MaxResp /\ id \in RespIds
  /\ nresp' = nresp + 1
  /\ Step("rcv", "Lookup", id)
  /\ LET uid == nresp + 1
         sent == [Ev("peersend") EXCEPT !.uid = uid, !.id = id] IN
     IF Has(id)
     THEN /\ rcur' = [uid |-> uid, id |-> id] /\ rch' = table[id]
          /\ IF FixLookupDelete
             THEN table' = Without(table, id) /\ rpc' = "deleted"
             ELSE UNCHANGED table /\ rpc' = "looked"
          /\ obs' = Append(obs, sent)
          /\ UNCHANGED stream
     ELSE /\ stream' = Append(stream, uid)
          /\ obs' = obs \o <<sent, [Ev("stream") EXCEPT !.uid = uid, !.id = id]>>
          /\ UNCHANGED <<table, rpc, rcur, rch>>
  /\ UNCHANGED <<pc, chan, ctxEnded, got, poisoned>>

(* as written: a separate locked region that deletes whatever is under the id now *)
RcvDelete ==
  /\ rpc = "looked"
  /\ table' = IF Has(rcur.id) THEN Without(table, rcur.id) ELSE table
  /\ rpc' = "deleted"
  /\ Step("rcv", "Delete", "")
  /\ UNCHANGED <<pc, chan, ctxEnded, got, poisoned, rcur, rch, nresp, stream, obs>>

RcvReply ==
  /\ rpc = "deleted"
  /\ chan' = [chan EXCEPT ![rch] = rcur.uid]
  /\ rpc' = "idle"
  /\ Step("rcv", "Reply", "")
  /\ UNCHANGED <<pc, table, ctxEnded, got, poisoned, rcur, rch, nresp, stream, obs>>

Ended == IF Len(obs) = 0 THEN FALSE ELSE obs[Len(obs)].k = "end"
(* quiescence: the harness looks at what is left *)
Quiet == /\ rpc = "idle"
         /\ \A c \in Callers : pc[c] \in {"idle", "done"} \/ (pc[c] = "wait" /\ chan[c] = 0 /\ ~ctxEnded[c])
End ==
  /\ Quiet /\ ~Ended
  /\ nresp = MaxResp \/ \A c \in Callers : pc[c] # "idle"
  /\ obs' = Append(obs, [Ev("end") EXCEPT !.n = Cardinality(DOMAIN table)])
  /\ Step("drv", "End", "")
  /\ UNCHANGED <<pc, table, chan, ctxEnded, got, poisoned, rpc, rcur, rch, nresp, stream>>

Init == /\ pc = [c \in Callers |-> "idle"] /\ table = <<>> /\ chan = [c \in Callers |-> 0]
        /\ ctxEnded = [c \in Callers |-> FALSE] /\ got = [c \in Callers |-> 0] /\ poisoned = FALSE
        /\ rpc = "idle" /\ rcur = [uid |-> 0, id |-> ""] /\ rch = CHOOSE c \in Callers : TRUE
        /\ nresp = 0 /\ stream = <<>> /\ hist = <<>> /\ obs = <<>>

Next == /\ ~Ended
        /\ \/ \E c \in Callers : Register(c) \/ CtxEnd(c) \/ Wait(c) \/ Cleanup(c)
           \/ \E id \in RespIds : RcvLookup(id)
           \/ RcvDelete \/ RcvReply \/ End
Spec == Init /\ [][Next]_vars
Terminal == Ended

-----------------------------------------------------------------------------
(* internal invariant: a request that is waiting keeps its table entry until its *)
(* own response was taken out for it                                             *)
EntryIntact ==
  \A c \in Callers :
    (pc[c] = "wait" /\ chan[c] = 0 /\ ~(rpc # "idle" /\ rch = c))
      => (Has(IdOf[c]) /\ table[IdOf[c]] = c)

P_C05 == /\ C05_OwnIdOnly(obs) /\ C05_AtMostOnce(obs) /\ C05_DupRejected(obs)
         /\ (Ended => C05_Completes(obs) /\ C05_UnknownToStream(obs) /\ C05_TableEmpty(obs))
TypeOK == rpc \in {"idle", "looked", "deleted"} /\ nresp \in 0 .. MaxResp
=============================================================================
