------------------------------ MODULE Transport ------------------------------
(* The contract of a connected transport pair as the channels above it rely on *)
(* it, for the three implementations.  One operation at a time (the harness    *)
(* lets the network settle between operations), each with a short deadline, so *)
(* the outcome of every operation is determined:                               *)
(*   send(x)   "ok" | "err" | "timeout"        recv(x)  value | "err" | "timeout" *)
(*   close(x)  "ok" | "err"                     conn(x)  "y" | "n"               *)
(* in-process: a bounded queue per direction (capacity K, 0 = rendezvous);     *)
(*   Close marks BOTH ends closed, discards what is queued for the closing end *)
(*   and leaves what is queued for the other end readable; Connected stays     *)
(*   true while something is queued for that end.                              *)
(* tcp / ws:   unbounded (small envelopes); an end that was closed refuses     *)
(*   everything ("err"); the other end reads what was written before the close *)
(*   and then gets an error (tcp: end of stream, which also turns Connected    *)
(*   false); a write to an end that has closed may still succeed locally (and  *)
(*   resets the connection: what had arrived before stays readable, the end of *)
(*   the stream is still reported as such); a receive that times out leaves the decoder   *)
(*   in its error state: every later receive reports the same timeout.         *)
(*   (Closing an end that has unread input resets the connection and may       *)
(*   discard data in flight, F-C13-7: those sequences are not generated.)      *)
EXTENDS Integers, Sequences, FiniteSets, TLC, TransProps

CONSTANTS Kind, K, MaxOps


VARIABLES q,        \* side -> values written for it and not yet read
          closed,   \* side -> it called Close (in-process: either side did)
          eof,      \* tcp: side -> a receive met the end of the stream
          rpois,    \* sockets: side -> a receive timed out
          nsent, obs
vars == <<q, closed, eof, rpois, nsent, obs>>

Socket == Kind \in {"tcp", "ws"}
Open(x) == IF Kind = "tcp" THEN ~closed[x] /\ ~eof[x] ELSE ~closed[x]
Connected(x) == IF Kind = "inproc" THEN ~closed[x] \/ q[x] # <<>> ELSE Open(x)
Ev(op, x, res) == [k |-> "op", op |-> op, side |-> x, res |-> res, v |-> 0]
EvV(op, x, res, val) == [k |-> "op", op |-> op, side |-> x, res |-> res, v |-> val]

Send(x) ==
  LET o == Oth(x) IN
  /\ nsent' = nsent + 1
  /\ IF Kind = "inproc"
     THEN IF closed[x] THEN obs' = Append(obs, EvV("send", x, "err", nsent + 1)) /\ UNCHANGED q
          ELSE IF Len(q[o]) < K THEN /\ q' = [q EXCEPT ![o] = Append(@, nsent + 1)]
                                     /\ obs' = Append(obs, EvV("send", x, "ok", nsent + 1))
          ELSE obs' = Append(obs, EvV("send", x, "timeout", nsent + 1)) /\ UNCHANGED q
     ELSE IF ~Open(x) THEN obs' = Append(obs, EvV("send", x, "err", nsent + 1)) /\ UNCHANGED q
          ELSE IF closed[o] THEN \* written into a connection the peer has left: accepted locally or refused; it goes nowhere
                    /\ obs' = Append(obs, EvV("send", x, "ok|err", nsent + 1)) /\ UNCHANGED q
          ELSE /\ q' = [q EXCEPT ![o] = Append(@, nsent + 1)]
               /\ obs' = Append(obs, EvV("send", x, "ok", nsent + 1))
  /\ UNCHANGED <<closed, eof, rpois>>

Recv(x) ==
  LET o == Oth(x) IN
  /\ IF Kind = "inproc"
     THEN IF q[x] # <<>> THEN /\ obs' = Append(obs, EvV("recv", x, "val", Head(q[x])))
                              /\ q' = [q EXCEPT ![x] = Tail(@)] /\ UNCHANGED <<eof, rpois>>
          ELSE IF closed[x] THEN obs' = Append(obs, Ev("recv", x, "err")) /\ UNCHANGED <<q, eof, rpois>>
          ELSE obs' = Append(obs, Ev("recv", x, "timeout")) /\ UNCHANGED <<q, eof, rpois>>
     ELSE IF ~Open(x) THEN obs' = Append(obs, Ev("recv", x, "err")) /\ UNCHANGED <<q, eof, rpois>>
          ELSE IF rpois[x] THEN obs' = Append(obs, Ev("recv", x, "timeout")) /\ UNCHANGED <<q, eof, rpois>>
          ELSE IF q[x] # <<>>       \* also after the connection was reset: what had arrived stays readable
               THEN /\ obs' = Append(obs, EvV("recv", x, "val", Head(q[x])))
                    /\ q' = [q EXCEPT ![x] = Tail(@)] /\ UNCHANGED <<eof, rpois>>
          ELSE IF closed[o]
               THEN /\ obs' = Append(obs, Ev("recv", x, "err"))
                    /\ eof' = [eof EXCEPT ![x] = TRUE]         \* the peer's FIN came first: end of stream even if a reset followed
                    /\ UNCHANGED <<q, rpois>>
          ELSE /\ obs' = Append(obs, Ev("recv", x, "timeout"))
               /\ rpois' = [rpois EXCEPT ![x] = TRUE] /\ UNCHANGED <<q, eof>>
  /\ UNCHANGED <<closed, nsent>>

Close(x) ==
  LET o == Oth(x) IN
  /\ IF Kind = "inproc"
     THEN /\ closed' = [s \in Side |-> TRUE] /\ q' = [q EXCEPT ![x] = <<>>]
          /\ obs' = Append(obs, Ev("close", x, "ok"))
     ELSE /\ (~closed[x] => q[x] = <<>>)         \* see the header: not generated
          \* (also after the end of the stream: the connection is still to be released)
          /\ IF ~closed[x] THEN closed' = [closed EXCEPT ![x] = TRUE] /\ obs' = Append(obs, Ev("close", x, "ok"))
             ELSE UNCHANGED closed /\ obs' = Append(obs, Ev("close", x, "err"))
          /\ UNCHANGED q
  /\ UNCHANGED <<eof, rpois, nsent>>

Conn(x) ==
  /\ obs' = Append(obs, Ev("conn", x, IF Connected(x) THEN "y" ELSE "n"))
  /\ UNCHANGED <<q, closed, eof, rpois, nsent>>

Init == /\ q = [s \in Side |-> <<>>] /\ closed = [s \in Side |-> FALSE] /\ eof = [s \in Side |-> FALSE]
        /\ rpois = [s \in Side |-> FALSE] /\ nsent = 0 /\ obs = <<>>
Next == /\ Len(obs) < MaxOps
        /\ \E x \in Side : Send(x) \/ Recv(x) \/ Close(x) \/ Conn(x)
Spec == Init /\ [][Next]_vars

-----------------------------------------------------------------------------
(* what the channels rely on, as functions of the observed history (TransProps)           *)
P_T == T_Order(obs) /\ T_NoLoss(obs) /\ T_ClosedRefuses(obs, Kind) /\ T_CloseNoticed(obs)
TypeOK == nsent \in 0 .. MaxOps
=============================================================================
