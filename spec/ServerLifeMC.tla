---------------------------- MODULE ServerLifeMC ----------------------------
EXTENDS ServerLife, Json
CONSTANT Tier
MCLis == IF Tier = "thorough" THEN {"l1", "l2"} ELSE {"l1"}
MCConns == {"c1", "c2"}
MCCloseAfter == IF Tier = "check" THEN {0} ELSE {0, 3, 6, 9, 12, 15}
NoHist == <<las, ctxDone, lisOpen, qClosed, queue, backlog, acc, accErr, cons, sess, outcome, closer, closeAt, panicked, obs>>
Dump == Terminal => PrintT("CASE " \o ToJson([cfg |-> [tier |-> Tier, outcome |-> outcome], script |-> hist, obs |-> obs]))
=============================================================================
