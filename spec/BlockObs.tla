------------------------------ MODULE BlockObs ------------------------------
(* Observed-history monitor of C15: one "cfg" record starts each case, the     *)
(* "op" record that follows carries what the real call did: the latency (ms)   *)
(* between the end of its context and its return, whether it was still running *)
(* when the context ended, whether it returned at all within the observation   *)
(* window, and the kind of its result.  bound is the delay the property allows *)
(* (Blocking.tla, Bound), in ms.                                               *)
EXTENDS Integers, Sequences, TLC, Json
CONSTANTS TraceFile
Trace == ndJsonDeserialize(TraceFile)
VARIABLES l, caseN, obs
vars == <<l, caseN, obs>>
Slack == 1000       \* scheduling noise of a loaded machine; the violations at stake are whole poll intervals
(* the call returns, and no later than the bound after its context ended *)
C15_Bounded(o) == \A i \in 1 .. Len(o) : o[i].k = "op" => (o[i].hang = "n" /\ o[i].lat <= o[i].bound + Slack)
(* a call that was waiting for its peer when its context ended does not report success (ending a *)
(* session is exempt: its work is done once the envelope is written, what it may still wait for  *)
(* is its own receiver, and completing successfully inside the bound is not a failure)           *)
C15_ReturnsError(o) == \A i \in 1 .. Len(o) :
   (o[i].k = "op" /\ o[i].endat = 1 /\ o[i].blocked = "y" /\ o[i].hang = "n" /\ o[i].op \notin {"finishs", "fails"})
      => o[i].err # "nil"
Ops(o) == << <<"C15_Bounded", C15_Bounded(o)>>, <<"C15_ReturnsError", C15_ReturnsError(o)>> >>
Report(n, o) == LET ops == Ops(o) IN \A i \in 1 .. Len(ops) : ops[i][2] \/ PrintT(<<"BAD", n, ops[i][1]>>)
CaseEnds(i) == i = Len(Trace) \/ Trace[i + 1].k = "cfg"
Init == l = 1 /\ caseN = 0 /\ obs = <<>>
Next ==
  /\ l <= Len(Trace)
  /\ l' = l + 1
  /\ LET r == Trace[l] IN
     IF r.k = "cfg" THEN caseN' = r.n /\ obs' = <<>>
     ELSE obs' = Append(obs, r) /\ UNCHANGED caseN
  /\ (CaseEnds(l) => Report(caseN', obs'))
Spec == Init /\ [][Next]_vars
Consumed == TLCGet("stats").diameter - 1 = Len(Trace)
=============================================================================
