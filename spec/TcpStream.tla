------------------------------ MODULE TcpStream ------------------------------
(* The TCP transport's byte path, shaped like tcp_transport.go:              *)
(*   Send     = json.Encoder.Encode -> one ctxConn.Write(buf) ; the write    *)
(*              loop re-arms the deadline and retries on a temporary timeout *)
(*   Receive  = json.Decoder.Decode over io.LimitedReader over ctxConn.Read; *)
(*              the budget N is re-armed to the read limit after each value  *)
(* Bytes are real byte offsets.  Envelope k is `lens[k]` units of U bytes of *)
(* JSON value followed by the one-byte terminator the encoder writes.  The   *)
(* wire and the decoder input are sequences of segments <<k, from, to>>      *)
(* (bytes from..to-1 of the encoding of envelope k), so duplication, loss    *)
(* and reordering of bytes are all representable.                            *)
(* Environment: the connection under the transport answers every Write /     *)
(* Read call with one of the results a net.Conn may legally return.          *)
(* Toggles: FALSE = code as written, TRUE = repaired.                        *)
EXTENDS Integers, Sequences, FiniteSets, TLC, TcpProps

CONSTANTS U,              \* bytes per unit
          Cfgs,           \* set of [lens, L] explored (L = read limit in bytes, 0 = default)
          MaxWF, MaxRF,   \* bounds on write faults / read anomalies per behaviour
          MaxMarks,       \* how many of the next fragmentation points a Read may choose from
          MaxSmall,       \* how many Reads of a behaviour may stop short of "everything available"
          FixShortWrite,  \* C12: a retried write continues after the bytes already accepted
          FixReadN        \* C12: bytes returned together with an error are not dropped

VARIABLES cfg, phase,
          sk, sOff, wire, wf,                \* sender
          cut, rd, seen, N, used, rf, eofSeen, nextk, small,   \* receiver
          plan, obs
vars == <<cfg, phase, sk, sOff, wire, wf, cut, rd, seen, N, used, rf, eofSeen, nextk, small, plan, obs>>

NE == Len(cfg.lens)
VLen(k) == U * cfg.lens[k]        \* bytes of the JSON value
BLen(k) == VLen(k) + 1            \* with the terminator
Big == 1000000
Limit == IF cfg.L = 0 THEN Big ELSE cfg.L

SegLen(s) == s[3] - s[2]
RECURSIVE Total(_)
Total(w) == IF w = <<>> THEN 0 ELSE SegLen(Head(w)) + Total(Tail(w))

RECURSIVE Slice(_, _, _)
Slice(w, a, b) ==      \* the segments covering flattened offsets a .. b-1 of w
  IF w = <<>> \/ b <= 0 THEN <<>>
  ELSE LET h == Head(w) l == SegLen(h) IN
       IF a >= l THEN Slice(Tail(w), a - l, b - l)
       ELSE LET lo == IF a > 0 THEN a ELSE 0
                hi == IF b < l THEN b ELSE l
            IN <<<<h[1], h[2] + lo, h[2] + hi>>>> \o Slice(Tail(w), 0, b - l)

Push(w, s) ==          \* append one segment, merging contiguous bytes of the same envelope
  IF s[2] = s[3] THEN w
  ELSE IF w # <<>> /\ w[Len(w)][1] = s[1] /\ w[Len(w)][3] = s[2]
       THEN [w EXCEPT ![Len(w)] = <<s[1], w[Len(w)][2], s[3]>>]
       ELSE Append(w, s)
RECURSIVE PushAll(_, _)
PushAll(w, ss) == IF ss = <<>> THEN w ELSE PushAll(Push(w, Head(ss)), Tail(ss))

(* fragmentation points of the wire: segment ends, value ends, unit multiples *)
RECURSIVE MarksR(_, _)
MarksR(w, base) ==
  IF w = <<>> THEN {}
  ELSE LET h == Head(w) IN
       {base + (x - h[2]) : x \in {y \in (h[2] + 1) .. h[3] :
                                     y = h[3] \/ y = U * cfg.lens[h[1]] \/ y % U = 0}}
       \cup MarksR(Tail(w), base + SegLen(h))
Marks == MarksR(wire, 0)
NextMarks(from, upto) ==
  LET M == {m \in Marks : m > from /\ m <= upto}
      Smallest(S, n) == {m \in S : Cardinality({x \in S : x < m}) < n}
  IN Smallest(M, MaxMarks) \cup (IF upto > from THEN {upto} ELSE {})

-----------------------------------------------------------------------------
(* what the decoder can make of its unconsumed input *)
IsWs(s) == s[2] >= U * cfg.lens[s[1]]              \* only the terminator
RECURSIVE StripWs(_)
StripWs(w) == IF w # <<>> /\ IsWs(Head(w)) THEN StripWs(Tail(w)) ELSE w

Outcome(w) ==      \* <<"ok", k>> | <<"need">> | <<"corrupt">>
  LET s == StripWs(w) IN
  IF s = <<>> THEN <<"need">>
  ELSE LET h == Head(s) IN
       IF h[2] # 0 THEN <<"corrupt">>
       ELSE IF h[3] >= VLen(h[1]) THEN <<"ok", h[1]>>
       ELSE IF Len(s) = 1 THEN <<"need">> ELSE <<"corrupt">>

Consume(w) ==      \* drop the value at the head (after leading whitespace)
  LET s == StripWs(w) h == Head(s) IN
  IF h[3] > VLen(h[1]) THEN <<<<h[1], VLen(h[1]), h[3]>>>> \o Tail(s) ELSE Tail(s)

-----------------------------------------------------------------------------
Ev(k) == [T0 EXCEPT !.k = k]
WPlan(r, n) == [plan EXCEPT !.w = Append(@, [r |-> r, n |-> n])]
RPlan(r, n) == [plan EXCEPT !.r = Append(@, [r |-> r, n |-> n])]

SendDone(res) ==
  /\ obs' = Append(obs, [Ev("send") EXCEPT !.env = sk, !.res = res])
  /\ sOff' = 0

(* once a Send has failed at the connection the transport's encoder keeps that error: every later Send *)
(* reports it again and nothing more is handed to the connection                                       *)
Poisoned == \E i \in 1 .. Len(obs) : obs[i].k = "send" /\ obs[i].res = "err"
WPoisoned ==
  /\ phase = "send" /\ sk <= NE /\ Poisoned
  /\ SendDone("err") /\ sk' = sk + 1
  /\ UNCHANGED <<cfg, phase, wire, wf, cut, rd, seen, N, used, rf, eofSeen, nextk, small, plan>>

(* ctxConn.Write: one conn.Write call per action *)
WFull ==
  /\ phase = "send" /\ sk <= NE /\ ~Poisoned
  /\ wire' = Push(wire, <<sk, sOff, BLen(sk)>>)
  /\ plan' = WPlan("full", BLen(sk) - sOff)
  /\ SendDone("ok") /\ sk' = sk + 1
  /\ UNCHANGED <<cfg, phase, wf, cut, rd, seen, N, used, rf, eofSeen, nextk, small>>

WShort(n) ==       \* n bytes accepted, then a temporary timeout: the loop retries
  /\ phase = "send" /\ sk <= NE /\ wf < MaxWF /\ ~Poisoned
  /\ n < BLen(sk) - sOff
  /\ wire' = Push(wire, <<sk, sOff, sOff + n>>)
  /\ plan' = WPlan("short", n)
  /\ sOff' = IF FixShortWrite THEN sOff + n ELSE 0      \* as written: the whole buffer again
  /\ wf' = wf + 1
  /\ UNCHANGED <<cfg, phase, sk, cut, rd, seen, N, used, rf, eofSeen, nextk, small, obs>>

WHard(n) ==        \* n bytes accepted, then a hard error: Send reports it (the application goes on with the next one)
  /\ phase = "send" /\ sk <= NE /\ wf < MaxWF /\ ~Poisoned
  /\ n < BLen(sk) - sOff
  /\ wire' = Push(wire, <<sk, sOff, sOff + n>>)
  /\ plan' = WPlan("hard", n)
  /\ SendDone("err") /\ sk' = sk + 1 /\ wf' = wf + 1
  /\ UNCHANGED <<cfg, phase, cut, rd, seen, N, used, rf, eofSeen, nextk, small>>

WCtx(n) ==         \* n bytes accepted, a temporary timeout, and the context of the Send has ended meanwhile:
                   \* the write loop gives up with the context's error (and the encoder keeps it, like any other)
  /\ phase = "send" /\ sk <= NE /\ wf < MaxWF /\ ~Poisoned
  /\ n < BLen(sk) - sOff
  /\ wire' = Push(wire, <<sk, sOff, sOff + n>>)
  /\ plan' = WPlan("ctx", n)
  /\ SendDone("err") /\ sk' = sk + 1 /\ wf' = wf + 1
  /\ UNCHANGED <<cfg, phase, cut, rd, seen, N, used, rf, eofSeen, nextk, small>>

(* the sender is done: fix where the stream ends for the receiver *)
StartRecv(c) ==
  /\ phase = "send" /\ sk > NE
  /\ c \in Marks \cup {Total(wire)}
  /\ (c < Total(wire) => rf < MaxRF)
  /\ phase' = "recv" /\ cut' = c
  /\ rf' = IF c < Total(wire) THEN rf + 1 ELSE rf
  /\ obs' = Append(obs, [Ev("wire") EXCEPT !.segs = wire])
  /\ plan' = [plan EXCEPT !.cut = c]
  /\ UNCHANGED <<cfg, sk, sOff, wire, wf, rd, seen, N, used, eofSeen, nextk, small>>

-----------------------------------------------------------------------------
RecvDone(res, k) ==
  obs' = Append(obs, [Ev("recv") EXCEPT !.res = res, !.env = k, !.used = used])

(* Receive returns as soon as the buffered input decides *)
RReturn ==
  /\ phase = "recv"
  /\ LET o == Outcome(seen) IN
     CASE o[1] = "ok" ->
            /\ RecvDone("ok", o[2]) /\ seen' = Consume(seen)
            /\ N' = Limit /\ used' = 0 /\ nextk' = nextk + 1
            /\ UNCHANGED <<phase, eofSeen>>
       [] o[1] = "corrupt" ->
            /\ RecvDone("err", 0) /\ phase' = "retry"
            /\ UNCHANGED <<seen, N, used, nextk, eofSeen>>
       [] OTHER ->      \* more input needed
            /\ (N = 0 \/ eofSeen)      \* budget exhausted, or the connection already said EOF
            /\ RecvDone("err", 0) /\ phase' = "retry"
            /\ UNCHANGED <<seen, N, used, nextk, eofSeen>>
  /\ UNCHANGED <<cfg, sk, sOff, wire, wf, cut, rd, rf, small, plan>>

(* the context of the Receive ends while it waits for bytes: it reports the error *)
RCtxEnd ==
  /\ phase = "recv" /\ Outcome(seen)[1] = "need" /\ N > 0 /\ ~eofSeen /\ rf < MaxRF
  /\ rf' = rf + 1
  /\ RecvDone("err", 0) /\ phase' = "retry"
  /\ plan' = RPlan("ctxend", 0)
  /\ UNCHANGED <<cfg, sk, sOff, wire, wf, cut, rd, seen, N, used, eofSeen, nextk, small>>

(* whatever made a Receive fail, the transport does not resynchronise on the *)
(* middle of the stream: the next Receive fails again without reading        *)
RRetry ==
  /\ phase = "retry"
  /\ obs' = Append(obs, [Ev("recv") EXCEPT !.res = "err", !.env = 0, !.used = 0])
  /\ phase' = "done"
  /\ UNCHANGED <<cfg, sk, sOff, wire, wf, cut, rd, seen, N, used, rf, eofSeen, nextk, small, plan>>

Needs == phase = "recv" /\ Outcome(seen)[1] = "need" /\ N > 0 /\ ~eofSeen

(* ctxConn.Read: one conn.Read call per action; the request is min(budget, buffer space) *)
RChunk(b) ==       \* (n > 0, nil)
  /\ Needs /\ b \in NextMarks(rd, cut)
  /\ (b < cut => small < MaxSmall)
  /\ small' = IF b < cut THEN small + 1 ELSE small
  /\ LET n == IF b - rd < N THEN b - rd ELSE N IN
     /\ seen' = PushAll(seen, Slice(wire, rd, rd + n))
     /\ rd' = rd + n /\ N' = N - n /\ used' = used + n
     /\ plan' = RPlan("data", n)
  /\ UNCHANGED <<cfg, phase, sk, sOff, wire, wf, cut, rf, eofSeen, nextk, obs>>

RTimeout ==        \* (0, temporary timeout): the loop retries
  /\ Needs /\ rf < MaxRF /\ rf' = rf + 1
  /\ plan' = RPlan("timeout", 0)
  /\ UNCHANGED <<cfg, phase, sk, sOff, wire, wf, cut, rd, seen, N, used, eofSeen, nextk, small, obs>>

RChunkTimeout(b) ==   \* (n > 0, temporary timeout)
  /\ Needs /\ rf < MaxRF /\ b \in NextMarks(rd, cut)
  /\ LET n == IF b - rd < N THEN b - rd ELSE N IN
     /\ seen' = IF FixReadN THEN PushAll(seen, Slice(wire, rd, rd + n)) ELSE seen  \* as written: dropped
     /\ rd' = rd + n /\ used' = used + n
     /\ N' = IF FixReadN THEN N - n ELSE N
     /\ plan' = RPlan("data+timeout", n)
  /\ rf' = rf + 1
  /\ UNCHANGED <<cfg, phase, sk, sOff, wire, wf, cut, eofSeen, nextk, small, obs>>

REof ==            \* (0, EOF): the stream ended (orderly, or cut)
  /\ Needs /\ rd = cut
  /\ eofSeen' = TRUE
  /\ plan' = RPlan("eof", 0)
  /\ UNCHANGED <<cfg, phase, sk, sOff, wire, wf, cut, rd, seen, N, used, rf, nextk, small, obs>>

RChunkEof ==       \* (n > 0, EOF): the last bytes arrive together with the end of stream
  /\ Needs /\ rd < cut /\ cut - rd <= N /\ rf < MaxRF
  /\ LET n == cut - rd IN
     /\ seen' = IF FixReadN THEN PushAll(seen, Slice(wire, rd, cut)) ELSE seen
     /\ rd' = cut /\ used' = used + n
     /\ N' = IF FixReadN THEN N - n ELSE N
     /\ plan' = RPlan("data+eof", n)
  /\ eofSeen' = TRUE /\ rf' = rf + 1
  /\ UNCHANGED <<cfg, phase, sk, sOff, wire, wf, cut, nextk, small, obs>>

-----------------------------------------------------------------------------
Init == /\ cfg \in Cfgs
        /\ phase = "send" /\ sk = 1 /\ sOff = 0 /\ wire = <<>> /\ wf = 0
        /\ cut = 0 /\ rd = 0 /\ seen = <<>> /\ N = Limit /\ used = 0 /\ rf = 0
        /\ eofSeen = FALSE /\ nextk = 1 /\ small = 0
        /\ plan = [w |-> <<>>, r |-> <<>>, cut |-> 0]
        /\ obs = <<>>

ShortSizes == IF sk <= NE THEN {n \in 0 .. BLen(sk) : n % U = 0 \/ n = VLen(sk)} ELSE {}
Next == \/ WFull \/ WPoisoned
        \/ \E n \in ShortSizes : WShort(n) \/ WHard(n) \/ WCtx(n)
        \/ (phase = "send" /\ sk > NE /\ \E c \in Marks \cup {Total(wire)} : StartRecv(c))
        \/ RReturn
        \/ (Needs /\ \E b \in NextMarks(rd, cut) : RChunk(b) \/ RChunkTimeout(b))
        \/ RTimeout \/ REof \/ RChunkEof \/ RCtxEnd \/ RRetry

Spec == Init /\ [][Next]_vars
Terminal == phase = "done"

(* the environment's faults, as the property's fault-free clause sees them *)
HardFault == \/ \E i \in 1 .. Len(plan.w) : plan.w[i].r \in {"hard", "ctx"}
             \/ \E i \in 1 .. Len(plan.r) : plan.r[i].r = "ctxend"
             \/ plan.cut < Total(wire)
PCfg == [lens |-> cfg.lens, U |-> U, L |-> cfg.L, faultfree |-> IF HardFault THEN "n" ELSE "y"]

P_C12 == /\ C12_StreamIntegrity(PCfg, obs)
         /\ C12_WireClean(PCfg, obs)
         /\ (Terminal => C12_NoSilentLoss(PCfg, obs))
P_C16 == /\ C16_PerReceiveBudget(PCfg, obs) /\ C16_RejectHuge(PCfg, obs)
         /\ (Terminal => C16_AcceptSmall(PCfg, obs))
(* the decoder never holds more than one budget of read-ahead *)
I_Ahead == phase = "recv" => Total(seen) <= Limit + Limit
TypeOK == phase \in {"send", "recv", "retry", "done"} /\ N >= 0 /\ rd <= Total(wire)
=============================================================================
