------------------------------ MODULE Blocking ------------------------------
(* Context-taking, possibly blocking operations as wait automata over discrete *)
(* time (one tick = one second).  For every operation x transport the table    *)
(* WaitKind says what the code waits on when the peer makes no progress, and   *)
(* therefore which wake-ups exist once the context ends:                       *)
(*   "select"     a select with a ctx.Done() arm (in-process; listeners;       *)
(*                ProcessCommand; websocket helpers with a forced deadline)    *)
(*   "poll"       ctxConn: conn deadline = min(now + 5 s, ctx deadline), the   *)
(*                context is looked at again after each expiry (TCP)           *)
(*   "rcvpoll"    waits for the receiver goroutine, which itself polls (TCP    *)
(*                FinishSession: the context does not shorten it)              *)
(*   "rcvsel"     waits for the polling receiver or the end of the context     *)
(*   "nowait"     completes without waiting for the peer                       *)
(*   "handshake"  tls handshake under a connection deadline taken from the     *)
(*                context's deadline, or 30 s when it has none                 *)
(*   "none"       no wake-up on the context at all                             *)
(* Toggles: FALSE = as written, TRUE = repaired.                               *)
EXTENDS Integers, Sequences, FiniteSets, TLC

CONSTANTS Cases,                 \* set of [op, tr]
          FixInprocSendCtx,      \* in-process Send selects on its context
          FixHandshakeCtx,       \* the TLS handshake is tied to the context
          FixWsSendDeadline,     \* the websocket Send expires the write in flight, not only the next frame
          FixFinishClose         \* ending a session waits for the receiver no longer than its context allows

VARIABLES cs, now, started, ctxEndAt, returnedAt, kind
vars == <<cs, now, started, ctxEndAt, returnedAt, kind>>

Poll == 5
Horizon == 40
SendOps == {"send", "chsend", "chsendnot", "chsendreq", "chsendresp"}
WaitKind(c) ==
  CASE c.op \in {"accept"} -> "select"
    [] c.op = "recvdrip" -> "select"             \* a peer that trickles bytes: the context is looked at before every read
    [] c.op \in SendOps /\ c.tr = "inproc" -> IF FixInprocSendCtx THEN "select" ELSE "none"
    [] c.op \in SendOps /\ c.tr = "ws" -> IF FixWsSendDeadline THEN "select" ELSE "none"
       \* as written: the select wakes up, sets gorilla's deadline (used by the NEXT frame) and then waits
       \* for the writer goroutine, which sits in a write without deadline
    [] c.op \in {"finishs", "fails"} /\ c.tr = "tcp" -> IF FixFinishClose THEN "rcvsel" ELSE "rcvpoll"
       \* repaired: the receiver is awaited no longer than the context allows, then the transport is closed
    [] c.op \in {"finishs", "fails"} -> "nowait"  \* in-process, websocket: the receiver wakes up on its context at once
    [] c.tr \in {"inproc", "ws"} -> "select"
    [] c.op = "pcmd" -> "select"                 \* the request is written, then select {ctx | reply}
    [] c.op = "finishc" -> IF FixFinishClose THEN "select" ELSE "rcvpoll"
       \* finishing is written, the session queue is awaited with ctx; on its error the channel is closed,
       \* which (as first repaired) waited for the polling receiver
    [] c.op \in {"esttlsc", "esttlss"} -> IF FixHandshakeCtx THEN "select" ELSE "handshake"
    [] OTHER -> "poll"                           \* send / receive / chsend / establish on TCP

(* when does an operation that started waiting at time s return, the context ending at e? *)
ReturnTime(w, ck, s, e) ==
  CASE w = "select" -> e
    [] w = "poll" -> IF ck = "deadline" THEN e
                     ELSE s + Poll * (((e - s) \div Poll) + 1)          \* next expiry of the 5 s conn deadline
    [] w = "rcvpoll" -> s + Poll
    [] w = "rcvsel" -> IF e < s + Poll THEN e ELSE s + Poll
    [] w = "nowait" -> s                                               \* completes without waiting for the peer
    [] w = "handshake" -> IF ck = "deadline" THEN e ELSE s + 30
    [] OTHER -> Horizon                                                \* never (within the horizon)

Init == /\ cs \in Cases /\ kind \in {"deadline", "cancel"}
        /\ now = 0 /\ started = 0 /\ ctxEndAt \in {0, 1} /\ returnedAt = -1
Tick == /\ returnedAt = -1 /\ now < Horizon
        /\ now' = now + 1
        /\ returnedAt' = IF now + 1 >= ReturnTime(WaitKind(cs), kind, started, ctxEndAt) /\ now + 1 >= ctxEndAt
                         THEN now + 1 ELSE returnedAt
        /\ UNCHANGED <<cs, started, ctxEndAt, kind>>
Next == Tick
Spec == Init /\ [][Next]_vars

(* the bound the property states, independent of how the code waits: promptly at a deadline; *)
(* for a cancellation no later than the transport's poll interval (five seconds on TCP)        *)
Bound(c, ck) == IF ck = "cancel" /\ c.tr = "tcp" THEN Poll ELSE 0
Blocks(c) == WaitKind(c) # "nowait"
Latency == IF Blocks(cs) THEN ReturnTime(WaitKind(cs), kind, started, ctxEndAt) - ctxEndAt ELSE 0
Bounded == Latency <= Bound(cs, kind) + 1      \* (+1: an operation that ends in the tick of the poll expiry)
TypeOK == now \in 0 .. Horizon
=============================================================================
