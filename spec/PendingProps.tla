---------------------------- MODULE PendingProps ----------------------------
(* Property operators of C05 over an observation history: what callers, the  *)
(* peer and the response stream can see.                                     *)
(*   call(c,id)  reqseen(c,id)  ret(c,res[,uid,id])  ctxend(c)               *)
(*   peersend(uid,id)  stream(uid,id)  end(n = entries left in the table)    *)
EXTENDS Integers, Sequences, FiniteSets

Q0 == [k |-> "", c |-> "", id |-> "", uid |-> 0, res |-> "", n |-> 0]

Idx(o) == 1 .. Len(o)
At(o, k, c) == {i \in Idx(o) : o[i].k = k /\ o[i].c = c}
First(S) == CHOOSE i \in S : \A j \in S : i <= j
CallersIn(o) == {o[i].c : i \in {j \in Idx(o) : o[j].k = "call"}}
IdOfC(o, c) == o[First(At(o, "call", c))].id
Returned(o, c) == At(o, "ret", c) # {}
RetOf(o, c) == o[First(At(o, "ret", c))]
Sends(o) == {i \in Idx(o) : o[i].k = "peersend"}

(* a caller's result is a response with its own id, or its context's error and then *)
(* only if its context ended                                                       *)
C05_OwnIdOnly(o) ==
  \A i \in Idx(o) : o[i].k = "ret" =>
    /\ (o[i].res = "resp" =>
          /\ o[i].id = IdOfC(o, o[i].c)
          /\ \E j \in Sends(o) : j < i /\ o[j].uid = o[i].uid /\ o[j].id = o[i].id)
    /\ (o[i].res = "ctxerr" => \E j \in At(o, "ctxend", o[i].c) : j < i)

(* each response instance goes to at most one consumer *)
C05_AtMostOnce(o) ==
  \A s \in Sends(o) :
    Cardinality({i \in Idx(o) : (o[i].k = "stream" \/ (o[i].k = "ret" /\ o[i].res = "resp")) /\ o[i].uid = o[s].uid}) <= 1

(* a request is refused as a duplicate only while another one with its id is pending *)
C05_DupRejected(o) ==
  \A c \in CallersIn(o) : (Returned(o, c) /\ RetOf(o, c).res = "inuse") =>
    \E d \in CallersIn(o) \ {c} :
      /\ IdOfC(o, d) = IdOfC(o, c)
      /\ First(At(o, "call", d)) < First(At(o, "ret", c))
      /\ (~Returned(o, d) \/ First(At(o, "ret", d)) > First(At(o, "call", c)))

HasEnd(o) == \E i \in Idx(o) : o[i].k = "end"

(* a response that arrives while a request with its id is waiting (its request reached *)
(* the peer before, its context never ended) completes that request                   *)
C05_Completes(o) ==
  \A c \in CallersIn(o) :
    (/\ At(o, "reqseen", c) # {} /\ At(o, "ctxend", c) = {}
     /\ \E s \in Sends(o) : s > First(At(o, "reqseen", c)) /\ o[s].id = IdOfC(o, c))
      => (Returned(o, c) /\ RetOf(o, c).res = "resp")

(* nothing is lost: every response ends with a caller, on the stream, or was handed to *)
(* a caller that had given up; one whose id nobody ever used is on the stream          *)
C05_UnknownToStream(o) ==
  \A s \in Sends(o) :
    LET consumed == \E i \in Idx(o) : (o[i].k = "stream" \/ (o[i].k = "ret" /\ o[i].res = "resp")) /\ o[i].uid = o[s].uid
        users == {c \in CallersIn(o) : IdOfC(o, c) = o[s].id}
    IN /\ (users = {} => \E i \in Idx(o) : o[i].k = "stream" /\ o[i].uid = o[s].uid)
       /\ (~consumed => \E c \in users : Returned(o, c) /\ RetOf(o, c).res \in {"ctxerr", "senderr"})

(* the table holds exactly the requests that are still waiting *)
C05_TableEmpty(o) ==
  \A i \in Idx(o) : o[i].k = "end" =>
    o[i].n = Cardinality({c \in CallersIn(o) : At(o, "reqseen", c) # {} /\ ~Returned(o, c)})
=============================================================================
