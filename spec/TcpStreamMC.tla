---------------------------- MODULE TcpStreamMC ----------------------------
EXTENDS TcpStream, Json
CONSTANT Tier, Family     \* Family = "C12" | "C16"

LensC12 == IF Tier = "thorough" THEN {<<3, 1>>, <<1, 3, 1>>, <<2, 3>>, <<3, 4>>} ELSE {<<3, 1>>, <<1, 3>>}
C12Cfgs == [lens : LensC12, L : {0}]
(* C16: limit of 3 units; envelope sizes below, at, between one and two limits, above two limits *)
LU == 3
(* second position after an accepted predecessor, and first position *)
AllSizes == {1, 2, 3, 5, 6, 7}
LensC16 == IF Tier = "thorough"
           THEN {<<a, b>> : a \in {1, 2, 3}, b \in AllSizes} \cup {<<a>> : a \in AllSizes}
                \cup {<<a, b, c>> : a \in {1, 3}, b \in {2, 3}, c \in {3, 5, 7}}
           ELSE {<<a, b>> : a \in {1, 3}, b \in {1, 3, 5, 6, 7}} \cup {<<a>> : a \in {5, 6, 7}}
(* the limit is LU units minus/plus a byte or two, so that the terminator decides *)
C16Cfgs == [lens : LensC16, L : {LU * U, LU * U + 1, LU * U - 1}]
MCCfgs == IF Family = "C12" THEN C12Cfgs ELSE C16Cfgs

Dump == Terminal =>
  PrintT("CASE " \o ToJson([cfg |-> PCfg, plan |-> plan, obs |-> obs]))
=============================================================================
