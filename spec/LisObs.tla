------------------------------- MODULE LisObs -------------------------------
(* Monitor of the listener contract on histories of operations executed on real *)
(* listeners (one "cfg" record (n, kind) per case).                             *)
EXTENDS Integers, Sequences, TLC, Json
CONSTANTS TraceFile
Trace == ndJsonDeserialize(TraceFile)
VARIABLES l, caseN, obs
vars == <<l, caseN, obs>>
(* same as L_Stops of Listener.tla (a module with constants cannot be extended here) *)
Stops(o) ==
  \A i \in 1 .. Len(o) : (o[i].op \in {"dial", "accept"} /\ o[i].res = "ok") =>
     \E j \in 1 .. (i - 1) : /\ o[j].op = "listen" /\ o[j].res = "ok"
                             /\ \A m \in (j + 1) .. (i - 1) : o[m].op # "close"
(* a connection that had not finished its upgrade when the listener closed is closed with it *)
Releases(o) == \A i \in 1 .. Len(o) : o[i].op = "halfopen" => o[i].res = "closed"
Ops(o) == << <<"C18_ListenerStops", Stops(o)>>, <<"C18_ListenerReleases", Releases(o)>> >>
Report(n, o) == LET ops == Ops(o) IN \A i \in 1 .. Len(ops) : ops[i][2] \/ PrintT(<<"BAD", n, ops[i][1]>>)
CaseEnds(i) == i = Len(Trace) \/ Trace[i + 1].k = "cfg"
Init == l = 1 /\ caseN = 0 /\ obs = <<>>
Next ==
  /\ l <= Len(Trace)
  /\ l' = l + 1
  /\ LET r == Trace[l] IN
     IF r.k = "cfg" THEN caseN' = r.n /\ obs' = <<>>
     ELSE obs' = Append(obs, r) /\ UNCHANGED caseN
  /\ (CaseEnds(l) => Report(caseN', obs'))
Spec == Init /\ [][Next]_vars
Consumed == TLCGet("stats").diameter - 1 = Len(Trace)
=============================================================================
