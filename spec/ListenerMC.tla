----------------------------- MODULE ListenerMC -----------------------------
EXTENDS Listener, Json
Dump == Terminal => PrintT("CASE " \o ToJson([cfg |-> [kind |-> Kind], obs |-> obs]))
=============================================================================
