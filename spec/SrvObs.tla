------------------------------- MODULE SrvObs -------------------------------
(* Observed-history monitor of the Server family: walks the histories recorded *)
(* from real Servers (one "cfg" record starts each case) and evaluates the     *)
(* SrvProps operators at the end of every case.                                *)
EXTENDS Integers, Sequences, TLC, Json, SrvProps
CONSTANTS TraceFile
Trace == ndJsonDeserialize(TraceFile)
VARIABLES l, caseN, obs
vars == <<l, caseN, obs>>
Ops(o) ==
  << <<"C18_NoPanic", C18_NoPanic(o)>>, <<"C18_ServeReturnsClosed", C18_ServeReturnsClosed(o)>>,
     <<"C18_CallbacksExact", C18_CallbacksExact(o)>>, <<"C18_AllFinished", C18_AllFinished(o)>>,
     <<"C18_NoLeak", C18_NoLeak(o)>>, <<"X18_NoStranded", X18_NoStranded(o)>> >>
Report(n, o) ==
  LET ops == Ops(o)
  IN \A i \in 1 .. Len(ops) : ops[i][2] \/ PrintT(<<"BAD", n, ops[i][1]>>)
CaseEnds(i) == i = Len(Trace) \/ Trace[i + 1].k = "cfg"
Init == l = 1 /\ caseN = 0 /\ obs = <<>>
Next ==
  /\ l <= Len(Trace)
  /\ l' = l + 1
  /\ LET r == Trace[l] IN
     IF r.k = "cfg" THEN caseN' = r.n /\ obs' = <<>>
     ELSE obs' = Append(obs, r) /\ UNCHANGED caseN
  /\ (CaseEnds(l) => Report(caseN', obs'))
Spec == Init /\ [][Next]_vars
Consumed == TLCGet("stats").diameter - 1 = Len(Trace)
=============================================================================
