--------------------------------- MODULE Iso ---------------------------------
(* Concurrent sessions of one Server (server.go consumeTransports / handleChannel, *)
(* context.go sessionContext, handler.go listen): each accepted connection gets    *)
(* its own channel with a fresh session id; the registration callback assigns the  *)
(* remote node (any value, possibly the same for several sessions); the dispatch   *)
(* loop of a session builds the handler context from that session's channel and    *)
(* hands the handler that same channel as its sender.                              *)
EXTENDS Integers, Sequences, FiniteSets, TLC, ChanProps

CONSTANTS Clients, Nodes, PerClient

VARIABLES chanOf,    \* client -> [sid, remote] once established ("" before)
          nextSid, sentN, inflight, replies, obs
vars == <<chanOf, nextSid, sentN, inflight, replies, obs>>
Ev(k) == [H0 EXCEPT !.k = k]

Establish(c, node) ==
  /\ chanOf[c].sid = 0
  /\ chanOf' = [chanOf EXCEPT ![c] = [sid |-> nextSid, remote |-> node]]
  /\ nextSid' = nextSid + 1                       \* uuid.NewString(): never repeats
  /\ UNCHANGED <<sentN, inflight, replies, obs>>
Send(c) ==
  /\ chanOf[c].sid # 0 /\ sentN[c] < PerClient
  /\ sentN' = [sentN EXCEPT ![c] = @ + 1]
  /\ inflight' = [inflight EXCEPT ![c] = Append(@, sentN[c] + 1)]
  /\ UNCHANGED <<chanOf, nextSid, replies, obs>>
(* the dispatch loop of c's session takes the next envelope of c's connection *)
Dispatch(c) ==
  /\ inflight[c] # <<>>
  /\ LET ctxSid == chanOf[c].sid  ctxRemote == chanOf[c].remote     \* sessionContext(ctx, that channel)
     IN obs' = Append(obs, [Ev("dispatch") EXCEPT !.g = c, !.i = Head(inflight[c]),
                               !.res = IF ctxSid = chanOf[c].sid /\ ctxRemote = chanOf[c].remote THEN "own" ELSE "foreign"])
  /\ inflight' = [inflight EXCEPT ![c] = Tail(@)]
  /\ replies' = [replies EXCEPT ![c] = Append(@, Head(inflight[c]))]   \* the handler's sender is that channel
  /\ UNCHANGED <<chanOf, nextSid, sentN>>
Reply(c) ==
  /\ replies[c] # <<>>
  /\ obs' = Append(obs, [Ev("reply") EXCEPT !.g = c, !.i = Head(replies[c]), !.res = "own"])
  /\ replies' = [replies EXCEPT ![c] = Tail(@)]
  /\ UNCHANGED <<chanOf, nextSid, sentN, inflight>>
Done == \A c \in Clients : chanOf[c].sid # 0 /\ sentN[c] = PerClient /\ inflight[c] = <<>> /\ replies[c] = <<>>
End == /\ Done /\ ~HasEnd(obs)
       /\ obs' = obs \o <<[Ev("ids") EXCEPT !.res = IF Cardinality({chanOf[c].sid : c \in Clients}) = Cardinality(Clients)
                                                    THEN "distinct" ELSE "clash"], Ev("end")>>
       /\ UNCHANGED <<chanOf, nextSid, sentN, inflight, replies>>
Init == /\ chanOf = [c \in Clients |-> [sid |-> 0, remote |-> ""]] /\ nextSid = 1
        /\ sentN = [c \in Clients |-> 0] /\ inflight = [c \in Clients |-> <<>>]
        /\ replies = [c \in Clients |-> <<>>] /\ obs = <<>>
Next == /\ ~HasEnd(obs)
        /\ \/ \E c \in Clients, n \in Nodes : Establish(c, n)
           \/ \E c \in Clients : Send(c) \/ Dispatch(c) \/ Reply(c)
           \/ End
Spec == Init /\ [][Next]_vars
P_C17 == C17_Isolated(obs)
=============================================================================
