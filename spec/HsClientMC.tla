---------------------------- MODULE HsClientMC ----------------------------
(* Model-checking / test-generation wrapper of HsClient.                   *)
EXTENDS HsClient, Json

MCCConfigs == [tk : {"tcp_tls", "tcp_notls"}, esel : {"tls", "none"}]

Compact(e) == [f \in {g \in DOMAIN e : e[g] # ""} |-> e[f]]
Dump == TerminalState =>
  PrintT("CASE " \o ToJson([cfg |-> [tk |-> ccfg.tk, esel |-> ccfg.esel, flavour |-> "client"],
                            obs |-> [i \in DOMAIN obs |-> Compact(obs[i])]]))
=============================================================================
