------------------------------- MODULE PendObs -------------------------------
(* Observed-history monitor of C05: walks the histories recorded from the real *)
(* channel (forced schedules and free runs; one "cfg" record starts each case) *)
(* and evaluates the PendingProps operators at the end of every case.          *)
EXTENDS Integers, Sequences, TLC, Json, PendingProps
CONSTANTS TraceFile
Trace == ndJsonDeserialize(TraceFile)
VARIABLES l, caseN, obs
vars == <<l, caseN, obs>>
Ops(o) ==
  << <<"C05_OwnIdOnly", C05_OwnIdOnly(o)>>, <<"C05_AtMostOnce", C05_AtMostOnce(o)>>,
     <<"C05_DupRejected", C05_DupRejected(o)>>, <<"C05_Completes", C05_Completes(o)>>,
     <<"C05_UnknownToStream", C05_UnknownToStream(o)>>, <<"C05_TableEmpty", C05_TableEmpty(o)>> >>
Report(n, o) ==
  LET ops == Ops(o)
  IN \A i \in 1 .. Len(ops) : ops[i][2] \/ PrintT(<<"BAD", n, ops[i][1]>>)
CaseEnds(i) == i = Len(Trace) \/ Trace[i + 1].k = "cfg"
Init == l = 1 /\ caseN = 0 /\ obs = <<>>
Next ==
  /\ l <= Len(Trace)
  /\ l' = l + 1
  /\ LET r == Trace[l] IN
     IF r.k = "cfg" THEN caseN' = r.n /\ obs' = <<>>
     ELSE obs' = Append(obs, r) /\ UNCHANGED caseN
  /\ (CaseEnds(l) => Report(caseN', obs'))
Spec == Init /\ [][Next]_vars
Consumed == TLCGet("stats").diameter - 1 = Len(Trace)
=============================================================================
