-------------------------------- MODULE IsoMC --------------------------------
EXTENDS Iso
MCClients == {"k1", "k2", "k3"}
MCNodes == {"n1", "n2"}
NoObs == <<chanOf, nextSid, sentN, inflight, replies>>
=============================================================================
