----------------------------- MODULE PendingMC -----------------------------
EXTENDS Pending, Json
CONSTANT Tier
MCCallers == IF Tier = "thorough" THEN {"a", "b", "c"} ELSE {"a", "b"}
MCIdOf == [x \in MCCallers |-> IF x = "c" THEN "Y" ELSE "X"]
MCRespIds == IF Tier = "thorough" THEN {"X", "Y", "Z"} ELSE {"X", "Z"}
MCCancellable == {"a"}
Dump == Terminal => PrintT("CASE " \o ToJson([cfg |-> [tier |-> Tier], script |-> hist, obs |-> obs]))
=============================================================================
