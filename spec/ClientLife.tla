----------------------------- MODULE ClientLife -----------------------------
(* The high-level Client (client.go): a cached channel, rebuilt on demand by   *)
(* getOrBuildChannel (reused iff its state is established and its transport    *)
(* reports connected), and the background listener goroutine                   *)
(*     for { ch := getOrBuildChannel() ; mux.ListenClient(ch) }                *)
(* together with what each fault does to the cached channel (channel.go        *)
(* receiveFromTransport and the transports' Connected()).                      *)
(* FixRcvErrRelease: FALSE = as written (a receive error that is not an end of *)
(* stream leaves the channel looking established), TRUE = the receiver         *)
(* releases the transport when it cannot receive any more.                     *)
EXTENDS Integers, Sequences, FiniteSets, TLC

CONSTANTS Faults, MaxFaults, FixRcvErrRelease

VARIABLES ch,        \* cached channel: [state, conn, rcv, gen]; gen = 0: none yet
          lpc,       \* listener: "get" | "listen" | "blocked"
          spin,      \* consecutive listener iterations that neither blocked nor changed anything
          nfaults, pushed, delivered
vars == <<ch, lpc, spin, nfaults, pushed, delivered>>

ChannelOK == ch.gen > 0 /\ ch.state = "established" /\ ch.conn
Fresh(g) == [state |-> "established", conn |-> TRUE, rcv |-> TRUE, gen |-> g]

(* getOrBuildChannel, with a reachable server: reuse or rebuild *)
ListenerGet ==
  /\ lpc = "get"
  /\ ch' = IF ChannelOK THEN ch ELSE Fresh(ch.gen + 1)
  /\ lpc' = "listen"
  /\ spin' = IF ChannelOK THEN spin ELSE 0          \* a rebuild is progress
  /\ UNCHANGED <<nfaults, pushed, delivered>>

(* mux.ListenClient: refuses a non-established channel; returns at once when the *)
(* receiver is gone; otherwise blocks in its select                              *)
ListenerListen ==
  /\ lpc = "listen"
  /\ IF ~ChannelOK THEN lpc' = "get" /\ spin' = spin + 1
     ELSE IF ~ch.rcv THEN lpc' = "get" /\ spin' = spin + 1
     ELSE lpc' = "blocked" /\ spin' = 0
  /\ UNCHANGED <<ch, nfaults, pushed, delivered>>

Effect(f) ==
  CASE f \in {"finish"} -> [ch EXCEPT !.state = "finished", !.rcv = FALSE]
    [] f \in {"fail", "refuse"} -> [ch EXCEPT !.state = "failed", !.rcv = FALSE]   \* ("refuse": and turns the client away for a while)
    [] f \in {"abrupt", "half"} -> [ch EXCEPT !.conn = FALSE, !.rcv = FALSE]          \* end of stream
    [] OTHER -> [ch EXCEPT !.rcv = FALSE, !.conn = IF FixRcvErrRelease THEN FALSE ELSE ch.conn]

(* something the application did not ask for happens to the session; the listener, *)
(* if it was blocked on that session, is woken by the receiver-done signal          *)
Fault(f) ==
  /\ ch.gen > 0 /\ ch.rcv /\ nfaults < MaxFaults
  /\ ch' = Effect(f) /\ nfaults' = nfaults + 1
  /\ lpc' = IF lpc = "blocked" THEN "get" ELSE lpc
  /\ UNCHANGED <<spin, pushed, delivered>>

(* the server pushes an envelope on the current session; a handler gets it iff the *)
(* listener is listening on that session                                            *)
Push ==
  /\ ch.gen > 0 /\ ch.rcv /\ pushed < ch.gen
  /\ pushed' = ch.gen
  /\ delivered' = IF lpc = "blocked" THEN ch.gen ELSE delivered
  /\ UNCHANGED <<ch, lpc, spin, nfaults>>

Init == /\ ch = [state |-> "", conn |-> FALSE, rcv |-> FALSE, gen |-> 0]
        /\ lpc = "get" /\ spin = 0 /\ nfaults = 0 /\ pushed = 0 /\ delivered = 0
Next == ListenerGet \/ ListenerListen \/ Push \/ \E f \in Faults : Fault(f)
Spec == Init /\ [][Next]_vars /\ WF_vars(ListenerGet) /\ WF_vars(ListenerListen)

(* the background listener never busy-loops *)
NoSpin == spin <= 1
(* after any fault the client ends up listening on a live established session again *)
Recovers == []<>(lpc = "blocked" /\ ChannelOK /\ ch.rcv)
SpinBound == spin <= 3      \* state constraint for the as-written variant (the spin never ends)
TypeOK == lpc \in {"get", "listen", "blocked"} /\ nfaults \in 0 .. MaxFaults
=============================================================================
