--------------------------------- MODULE Mux ---------------------------------
(* The envelope dispatcher (handler.go: EnvelopeMux.listen and the four       *)
(* handle* scans): one envelope at a time is taken from the channel's inbound *)
(* streams, the handlers of its kind are scanned in registration order, the   *)
(* first whose predicate accepts (a missing predicate accepts) is invoked     *)
(* and the scan stops; a handler error ends the loop (server.go then finishes *)
(* the session).  Every (table, inbound sequence) inside the bounds is a case. *)
EXTENDS Integers, Sequences, FiniteSets, TLC, MuxProps

CONSTANTS Tabs,      \* set of [role, focus, hs]: handlers hs registered for kind `focus`
          Inboxes    \* set of sequences of [own, cls]  (own = TRUE: an envelope of the focus kind)

VARIABLES cfg, inbox, pos, stopped, obs
vars == <<cfg, inbox, pos, stopped, obs>>

Kinds == <<"msg", "not", "req", "resp">>
KIdx(k) == CHOOSE i \in 1 .. 4 : Kinds[i] = k
Other(k) == Kinds[(KIdx(k) % 4) + 1]
CatchAll == <<[pred |-> "nil", out |-> "ok"]>>
TabOf(t) == [k \in {"msg", "not", "req", "resp"} |-> IF k = t.focus THEN t.hs ELSE CatchAll]
Cfg(t) == [role |-> t.role, focus |-> t.focus, tab |-> TabOf(t)]
Ev(k) == [M0 EXCEPT !.k = k]

Dispatch ==
  /\ pos <= Len(inbox)
  /\ LET e == inbox[pos]
         kind == IF e.own THEN cfg.focus ELSE Other(cfg.focus)
         f == FirstMatch(cfg.tab[kind], e.cls)
         inEv == [Ev("in") EXCEPT !.seq = pos, !.kind = kind, !.cls = e.cls]
     IN IF stopped \/ f = 0
        THEN obs' = Append(obs, inEv) /\ UNCHANGED stopped
        ELSE LET call == [Ev("call") EXCEPT !.seq = pos, !.kind = kind, !.idx = f, !.res = "same"] IN
             IF cfg.tab[kind][f].out = "err"
             THEN /\ stopped' = TRUE
                  \* (the server then finishes the session; its client sees that whenever it looks: logged at the end)
                  /\ obs' = obs \o <<inEv, call>>
             ELSE obs' = obs \o <<inEv, call>> /\ UNCHANGED stopped
  /\ pos' = pos + 1
  /\ UNCHANGED <<cfg, inbox>>

End ==
  /\ pos = Len(inbox) + 1
  /\ pos' = pos + 1
  /\ obs' = obs \o (IF ~stopped THEN <<[Ev("finished") EXCEPT !.res = "client"]>>
                     ELSE IF cfg.role = "server" THEN <<[Ev("finished") EXCEPT !.res = "server"]>> ELSE <<Ev("stop")>>)
                 \o <<Ev("end")>>
  /\ UNCHANGED <<cfg, inbox, stopped>>

Init == /\ \E t \in Tabs : cfg = Cfg(t)
        /\ inbox \in Inboxes /\ pos = 1 /\ stopped = FALSE /\ obs = <<>>
Next == Dispatch \/ End
Spec == Init /\ [][Next]_vars
Terminal == pos = Len(inbox) + 2

P_C20 == C20_FirstMatch(cfg, obs) /\ C20_ErrorStops(cfg, obs) /\ C20_Continues(cfg, obs)
=============================================================================
