---------------------------- MODULE HsServerMC ----------------------------
(* Model-checking / test-generation wrapper of HsServer.                   *)
EXTENDS HsServer, Json

CONSTANTS Tier        \* "quick" | "thorough" | "tiny"

Tks      == {"tcp_tls", "tcp_notls"}
EncSets  == {{"none"}, {"tls"}, {"none", "tls"}, {"tls", "dtls"}}   \* "dtls": configured, supported by no transport
CompSets == {{"none"}, {"none", "gzip"}, {"gzip"}}
SchSets  == {{"guest"}, {"plain"}, {"guest", "plain"}, {"transport"}, {}, {"key", "external"}, {"plain", "key"}}

AllConfigs == [tk : Tks, enc : EncSets, comp : CompSets, schemes : SchSets,
               flavour : {"chan", "server"}]
(* quick: compression lists only where the guard they feed changes value *)
QuickConfigs == {c \in AllConfigs :
                   /\ (c.comp = {"none", "gzip"} => (c.enc = {"none", "tls"} /\ c.schemes = {"guest", "plain"}))
                   /\ (c.comp = {"gzip"} => c.schemes = {"guest", "plain"})
                   /\ (c.schemes \in {{"transport"}, {}, {"key", "external"}, {"plain", "key"}} => c.enc = {"none"})
                   /\ (c.schemes \in {{"key", "external"}, {"plain", "key"}} => c.comp = {"none"})
                   /\ (c.enc = {"tls", "dtls"} => (c.comp = {"none"} /\ c.schemes = {"guest", "plain"}))}
TinyConfigs == {c \in AllConfigs : c.tk = "tcp_tls" /\ c.comp = {"none"} /\ c.schemes = {"guest", "plain"}
                                   /\ c.flavour = "chan"}
MCConfigs == CASE Tier = "thorough" -> AllConfigs
               [] Tier = "tiny" -> TinyConfigs
               [] OTHER -> QuickConfigs

CfgOut == [tk |-> cfg.tk, enc |-> EncStr(cfg.enc), comp |-> CompStr(cfg.comp),
           schemes |-> SchStr(cfg.schemes), flavour |-> cfg.flavour]

(* test generation: obs is part of the state, so every maximal behaviour   *)
(* is a distinct terminal state and is printed exactly once                *)
Compact(e) == [f \in {g \in DOMAIN e : e[g] # ""} |-> e[f]]
Dump == Terminal =>
  PrintT("CASE " \o ToJson([cfg |-> CfgOut, obs |-> [i \in DOMAIN obs |-> Compact(obs[i])]]))
=============================================================================
