------------------------------ MODULE HsClient ------------------------------
(* Client side of the lime session handshake, shaped like                   *)
(*   client_channel.go  EstablishSession / startNewSession /                *)
(*                      negotiateSession / authenticateSession /            *)
(*                      receiveSessionFromServer                            *)
(*   channel.go         receiveSession (three arms by channel state),       *)
(*                      setState / setStateWLock, receiveFromTransport      *)
(* against a raw, scripted server that may answer anything.                 *)
(* FixRegress = FALSE is the code as written: folding a reply whose state   *)
(* is earlier than the channel's state reaches the monotonicity guard and   *)
(* panics; TRUE is the repaired code (the call returns an error).           *)
EXTENDS Integers, Sequences, FiniteSets, TLC, HsProps

CONSTANTS MaxIn,        \* bound on the number of server inputs
          CConfigs,     \* client configurations explored
          FixRegress,
          FixRcvErrRelease   \* the receiver goroutine releases the transport when it cannot receive any more

VARIABLES ccfg,     \* [tk, esel]  transport kind, encryption selector
          pc,       \* where EstablishSession is blocked
          cState,   \* channel state
          cId,      \* adopted session id class
          tenc,     \* transport encryption on the client side
          open,     \* client side of the connection not closed by the client
          rtSeen,   \* the last reply carried round-trip data
          nIn, obs
vars == <<ccfg, pc, cState, cId, tenc, open, rtSeen, nIn, obs>>

Wire == IF tenc = "tls" THEN "tls" ELSE "clear"
Ev(k) == [E0 EXCEPT !.k = k]
In(kind) == [E0 EXCEPT !.k = "in", !.kind = kind]
SSes(st, id) == [E0 EXCEPT !.k = "in", !.kind = "ses", !.st = st, !.id = id]
COut(st) == [E0 EXCEPT !.k = "out", !.kind = "ses", !.st = st, !.id = cId, !.wire = Wire]

Ids == {"s1", "s2"}
NegSyms  == {[SSes("negotiating", i) EXCEPT !.eopts = "none,tls", !.copts = "none"] : i \in Ids}
            \cup {SSes("negotiating", i) : i \in Ids}
            \cup {[SSes("negotiating", i) EXCEPT !.enc = p[1], !.comp = p[2]] : i \in Ids,
                    p \in {<<"none", "none">>, <<"tls", "none">>, <<"bogus", "none">>, <<"none", "gzip">>}}
AuthSyms == {[SSes("authenticating", i) EXCEPT !.sopts = "guest,plain"] : i \in Ids}
            \cup {SSes("authenticating", i) : i \in Ids}
            \cup {[SSes("authenticating", i) EXCEPT !.scheme = "plain", !.cred = "rt"] : i \in Ids}
EstSyms  == {[SSes("established", i) EXCEPT !.frm = "srv", !.to = "me"] : i \in Ids}
            \cup {SSes("established", "s1")}
OtherSyms == {[SSes("failed", i) EXCEPT !.reason = "y"] : i \in Ids}
             \* a terminal answer that still carries negotiation fields (nothing is to be applied any more)
             \cup {[SSes("failed", "s1") EXCEPT !.reason = "y", !.enc = "tls", !.comp = "none"],
                   [SSes("finished", "s1") EXCEPT !.enc = "tls", !.comp = "none"]}
             \cup {SSes("finished", "s1"), SSes("finishing", "s1"), SSes("new", "s1"), SSes("new", "none")}
Noise == {In(x) : x \in {"msg", "garbage", "junk", "eof"}}
Syms == NegSyms \cup AuthSyms \cup EstSyms \cup OtherSyms \cup Noise
UpSyms == {In("tlsup"), SSes("authenticating", "s1"), In("eof")}

-----------------------------------------------------------------------------
Stamp(sym) == [sym EXCEPT !.wire = Wire]
ProbeEv(s, o, w) ==
  IF s = "established" /\ o
  THEN <<[Ev("probe") EXCEPT !.st = s, !.res = "ok"]>>
       \o [j \in 1 .. 4 |-> [Ev("out") EXCEPT !.kind = <<"msg", "not", "req", "resp">>[j], !.wire = w]]
  ELSE <<[Ev("probe") EXCEPT !.st = s, !.res = "err"]>>
StateEv(s, o, w) == <<[Ev("state") EXCEPT !.st = s]>> \o ProbeEv(s, o, w)

(* EstablishSession returns: res, the state of the returned session, and    *)
(* what the channel reports about itself                                    *)
RetEv(res, sesSt, chSt, o, id, loc, rem) ==
  [Ev("ret") EXCEPT !.res = res, !.st = sesSt, !.op = chSt,
                    !.reason = IF chSt = "established" /\ o THEN "y" ELSE "n",
                    !.id = IF res = "nil" THEN id ELSE "",
                    !.to = IF res = "nil" THEN loc ELSE "",
                    !.frm = IF res = "nil" THEN rem ELSE "", !.tenc = tenc]

Done(evs, res, sesSt, chSt, o, id, loc, rem) ==
  /\ obs' = obs \o evs \o <<RetEv(res, sesSt, chSt, o, id, loc, rem)>> \o StateEv(chSt, o, Wire)
  /\ pc' = "done"

(* a bare error return keeps everything as it is *)
ErrRet(evs) ==
  /\ Done(evs, "err", "", cState, open, cId, "", "")
  /\ UNCHANGED <<ccfg, cState, cId, tenc, open, rtSeen>>

Regress(sym) == Step(sym.st) < Step(cState)

(* what folding a reply does to the channel (receiveSessionFromServer)      *)
Terminal(st) == st \in {"finished", "failed"}
FoldOpen(sym) == IF Terminal(sym.st) THEN FALSE ELSE open
FoldClosed(sym) == IF Terminal(sym.st) /\ open THEN <<Ev("closed")>> ELSE <<>>

Creds == [COut("authenticating") EXCEPT !.scheme = "plain", !.ident = "me"]
(* Sends the credentials (the authenticator sees the round-trip data of the *)
(* previous reply) and waits for the answer.                                *)
(* The round-trip data handed to the authenticator is that of the previous  *)
(* answer to credentials; the first request's data is not passed on.        *)
SendCreds(evs, sym, loop) ==
  /\ obs' = obs \o evs
            \o <<[Creds EXCEPT !.id = sym.id, !.cred = IF loop /\ sym.cred = "rt" THEN "q" ELSE "p"]>>
            \o StateEv("authenticating", TRUE, Wire)
  /\ pc' = "auth"

Choice(opts) == IF ccfg.esel = "tls" /\ "tls" \in EncSet(opts) THEN "tls" ELSE "none"

(* after folding `sym` in a position where the next thing is the result     *)
Return(evs, sym) ==
  Done(evs \o FoldClosed(sym), "nil", sym.st, sym.st, FoldOpen(sym), sym.id,
       IF sym.st = "established" THEN sym.to ELSE "",
       IF sym.st = "established" THEN sym.frm ELSE "")

Panic(evs) ==
  /\ obs' = obs \o evs \o <<Ev("panic")>> \o StateEv(cState, open, Wire)
  /\ pc' = "done"
  /\ UNCHANGED <<ccfg, cState, cId, tenc, open, rtSeen>>

(* common head of every reply: budget, non-session input, regression        *)
Reply(sym, K(_)) ==
  /\ nIn < MaxIn /\ nIn' = nIn + 1
  /\ LET i == Stamp(sym) IN
     IF sym.kind # "ses" THEN ErrRet(<<i>>)
     ELSE IF Regress(sym) THEN (IF FixRegress THEN ErrRet(<<i>>) ELSE Panic(<<i>>))
     ELSE K(i)

(* startNewSession: the answer to the client's `new` *)
CliFirst(sym) ==
  /\ pc = "first" /\ sym \in Syms
  /\ Reply(sym, LAMBDA i :
       /\ cState' = sym.st /\ cId' = sym.id /\ open' = FoldOpen(sym)
       /\ rtSeen' = (sym.cred = "rt")
       /\ UNCHANGED <<ccfg, tenc>>
       /\ CASE sym.st = "negotiating" ->
                 /\ obs' = obs \o <<i, [COut("negotiating") EXCEPT !.id = sym.id,
                                        !.enc = Choice(sym.eopts), !.comp = "none"]>>
                               \o StateEv("negotiating", TRUE, Wire)
                 /\ pc' = "neg"
            [] sym.st = "authenticating" -> SendCreds(<<i>>, sym, FALSE)
            [] OTHER -> Return(<<i>>, sym))

(* negotiateSession: the answer to the client's choice *)
CliNeg(sym) ==
  /\ pc = "neg" /\ sym \in Syms
  /\ Reply(sym, LAMBDA i :
       /\ cId' = sym.id /\ rtSeen' = (sym.cred = "rt")
       /\ UNCHANGED ccfg
       /\ IF sym.st = "negotiating" /\ sym.comp \notin {"", "none"}
          THEN \* SetCompression fails on TCP
               /\ cState' = sym.st /\ open' = open /\ tenc' = tenc
               /\ Done(<<i>>, "err", "", sym.st, open, sym.id, "", "")
          ELSE IF sym.st = "negotiating" /\ sym.enc \notin {"", tenc}
          THEN IF ccfg.tk = "tcp_tls"
               THEN \* any other value starts a TLS handshake
                    /\ cState' = sym.st /\ open' = open /\ tenc' = tenc
                    /\ obs' = obs \o <<i, [Ev("out") EXCEPT !.kind = "bin", !.wire = "clear"]>>
                                  \o StateEv(sym.st, TRUE, Wire)
                    /\ pc' = "upgrade"
               ELSE /\ cState' = sym.st /\ open' = open /\ tenc' = tenc
                    /\ Done(<<i>>, "err", "", sym.st, open, sym.id, "", "")
          ELSE \* nothing to apply: wait for the authentication options
               /\ cState' = sym.st /\ open' = FoldOpen(sym) /\ tenc' = tenc
               /\ IF Terminal(sym.st)
                  THEN \* receiveSession refuses: finished state / closed transport
                       Done(<<i>> \o FoldClosed(sym), "err", "", sym.st, FALSE, sym.id, "", "")
                  ELSE /\ obs' = obs \o <<i>> \o StateEv(sym.st, TRUE, Wire)
                       /\ pc' = IF sym.st = "established" THEN "awaitEst" ELSE "await")

(* the TLS handshake of SetEncryption needs a TLS-speaking server *)
CliUpgrade(sym) ==
  /\ pc = "upgrade" /\ sym \in UpSyms
  /\ nIn < MaxIn /\ nIn' = nIn + 1
  /\ IF sym.kind = "tlsup"
     THEN /\ tenc' = "tls"
          /\ obs' = obs \o <<[Stamp(sym) EXCEPT !.wire = "tls"]>> \o StateEv(cState, TRUE, "tls")
          /\ pc' = "await"
          /\ UNCHANGED <<ccfg, cState, cId, open, rtSeen>>
     ELSE ErrRet(<<Stamp(sym)>>)

(* "await for authentication options" after the negotiation *)
CliAwait(sym) ==
  /\ pc = "await" /\ sym \in Syms
  /\ Reply(sym, LAMBDA i :
       /\ cState' = sym.st /\ cId' = sym.id /\ open' = FoldOpen(sym)
       /\ rtSeen' = (sym.cred = "rt")
       /\ UNCHANGED <<ccfg, tenc>>
       /\ IF sym.st = "authenticating" THEN SendCreds(<<i>>, sym, FALSE) ELSE Return(<<i>>, sym))

(* the same wait while the channel is already established: the envelope     *)
(* comes through the receiver goroutine                                     *)
CliAwaitEst(sym) ==
  /\ pc = "awaitEst" /\ sym \in Syms
  /\ nIn < MaxIn /\ nIn' = nIn + 1
  /\ LET i == Stamp(sym) IN
     CASE sym.kind = "msg" ->   \* buffered for the application; still waiting
            /\ obs' = obs \o <<i>> \o StateEv(cState, TRUE, Wire)
            /\ UNCHANGED <<ccfg, pc, cState, cId, tenc, open, rtSeen>>
       [] sym.kind \in {"garbage", "junk", "eof"} ->   \* receiver dies, stream closed
            LET rel == FixRcvErrRelease /\ sym.kind # "eof"      \* (after an end of stream there is nothing to release)
                stillOpen == open /\ sym.kind # "eof" /\ ~rel
            IN /\ Done(<<i>> \o (IF rel /\ open THEN <<Ev("closed")>> ELSE <<>>), "err", "", cState, stillOpen, cId, "", "")
               /\ open' = IF rel THEN FALSE ELSE open
               /\ UNCHANGED <<ccfg, cState, cId, tenc, rtSeen>>
       [] OTHER ->
            IF Regress(sym) THEN (IF FixRegress THEN ErrRet(<<i>>) ELSE Panic(<<i>>))
            ELSE /\ cState' = sym.st /\ cId' = sym.id /\ open' = FoldOpen(sym)
                 /\ rtSeen' = FALSE
                 /\ UNCHANGED <<ccfg, tenc>>
                 /\ Return(<<i>>, sym)

(* authenticateSession: the answer to the client's credentials *)
CliAuth(sym) ==
  /\ pc = "auth" /\ sym \in Syms
  /\ Reply(sym, LAMBDA i :
       /\ cState' = sym.st /\ cId' = sym.id /\ open' = FoldOpen(sym)
       /\ rtSeen' = (sym.cred = "rt")
       /\ UNCHANGED <<ccfg, tenc>>
       /\ IF sym.st = "authenticating" THEN SendCreds(<<i>>, sym, TRUE) ELSE Return(<<i>>, sym))

End ==
  /\ pc = "done"
  /\ obs' = Append(obs, [Ev("end") EXCEPT !.res = "quiet"])
  /\ pc' = "end"
  /\ UNCHANGED <<ccfg, cState, cId, tenc, open, rtSeen, nIn>>

-----------------------------------------------------------------------------
Init == /\ ccfg \in CConfigs
        /\ pc = "first" /\ cState = "new" /\ cId = "none" /\ tenc = "none" /\ open = TRUE
        /\ rtSeen = FALSE /\ nIn = 0
        /\ obs = <<[E0 EXCEPT !.k = "out", !.kind = "ses", !.st = "new", !.id = "none", !.wire = "clear"]>>
                 \o StateEv("new", TRUE, "clear")

(* when the budget is used up the server hangs up *)
Syms1(s) == IF nIn = MaxIn - 1 THEN s.kind = "eof" ELSE TRUE
Next == \/ \E s \in Syms : Syms1(s) /\ (CliFirst(s) \/ CliNeg(s) \/ CliAwait(s) \/ CliAwaitEst(s) \/ CliAuth(s))
        \/ \E s \in UpSyms : Syms1(s) /\ CliUpgrade(s)
        \/ End

Spec == Init /\ [][Next]_vars
TerminalState == pc = "end"

-----------------------------------------------------------------------------
Q_C08 == /\ C08_NoPanic(obs) /\ C08_Truthful(obs) /\ C08_EchoId(obs)
         /\ C08_CredsOnlyOnRequest(obs) /\ C08_ClosesOnTerminal(obs)
         /\ (TerminalState => C08_Returns(obs))
Q_C09 == C09_ClientUpgrade(obs)
Q_C06 == C06_ClientSendGuard(obs)
A_Monotone == [][Step(cState') >= Step(cState)]_cState
TypeOK == /\ pc \in {"first", "neg", "upgrade", "await", "awaitEst", "auth", "done", "end"}
          /\ cState \in {"new", "negotiating", "authenticating", "established", "finishing", "finished", "failed"}
          /\ nIn \in 0 .. MaxIn
=============================================================================
