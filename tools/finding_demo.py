#!/usr/bin/env python3
"""Demonstrate an open finding against the real code.
usage: finding_demo.py F-C13-7 [repetitions]
Runs the configurations named in the finding over and over on the real library (the failure is
schedule dependent) and stores the first recorded history that shows it under findings/<id>/."""
import json, os, sys
sys.path.insert(0, os.path.dirname(os.path.abspath(__file__)))
import vlib
from engines import chan

CFGS = {
    "F-C13-7": [
        {"transport": "tcp", "buffer": 1, "senders": 4, "count": 25, "payload": "big", "delay": 150, "initiator": "sfinish", "busy": True, "seed": 100},
        {"transport": "ws", "buffer": 0, "senders": 4, "count": 25, "payload": "big", "delay": 0, "initiator": "sfinish", "busy": True, "seed": 100},
        {"transport": "wss", "buffer": 0, "senders": 2, "count": 4, "payload": "big", "delay": 150, "initiator": "sfail", "busy": True, "seed": 100},
    ],
}


def main():
    fid = sys.argv[1]
    reps = int(sys.argv[2]) if len(sys.argv) > 2 else 100
    cases = []
    for r in range(reps):
        for c in CFGS[fid]:
            cases.append({"n": len(cases) + 1, "cfg": dict(c, seed=c["seed"] + r)})
    with vlib.Scratch("finding") as scratch:
        drv = vlib.build_driver(scratch)
        res = chan.C13.run("quick", scratch, drv, only_cases=cases)
    hits = [b for b in res["bad"] if b["op"] == "C13_PeerObserves"]
    print("%s: %d runs, %d show the finding" % (fid, len(cases), len(hits)))
    if hits:
        d = os.path.join(vlib.VERIF, "findings", fid)
        os.makedirs(d, exist_ok=True)
        b = hits[0]
        with open(os.path.join(d, "history.json"), "w") as f:
            json.dump({"finding": fid, "operator": b["op"], "cfg": b["cfg"], "runs": len(cases), "hits": len(hits),
                       "history": [e for e in (b.get("actual") or []) if e.get("k") not in ("sendcall", "sent", "delivered")]}, f, indent=1)
        print("recorded history: findings/%s/history.json" % fid)
    return 0


if __name__ == "__main__":
    sys.exit(main())
