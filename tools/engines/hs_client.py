"""Engine hs-client: HsClient.tla (exhaustive TLC + behaviour generation) ->
replay of every generated server script on the real ClientChannel -> HsObs.tla
monitor (client operators) over the recorded histories."""
import vlib

TOGGLES = ["FixRegress", "FixRcvErrRelease"]


def model_cfg(tier, tg, with_invariants):
    inv = "TypeOK Dump"
    props = ""
    if with_invariants:
        inv = "TypeOK Q_C08 Q_C09 Q_C06 Dump"
        props = "PROPERTIES A_Monotone\n"
    return ("SPECIFICATION Spec\nCONSTANTS\n  MaxIn = %d\n  CConfigs <- MCCConfigs\n" % (5 if tier == "thorough" else 4)
            + "".join("  %s = %s\n" % (k, vlib.tla_bool(tg[k])) for k in TOGGLES)
            + "INVARIANTS " + inv + "\n" + props + "CHECK_DEADLOCK FALSE\n")


MONITOR_CFG = ("SPECIFICATION Spec\nCONSTANTS\n  TraceFile = \"@TRACE@\"\n  Role = \"client\"\n"
               "POSTCONDITION Consumed\nCHECK_DEADLOCK FALSE\n")


def script_of(case):
    return [vlib.compact(e) for e in case["obs"] if e.get("k") == "in"]


def run(tier, scratch, drv, only_cases=None):
    tg = vlib.toggles()
    all_fixed = all(tg[k] for k in TOGGLES)
    res = {"engine": "hs-client", "toggles": {k: tg[k] for k in TOGGLES}}
    if only_cases is None:
        out, st = vlib.run_tlc("HsClientMC", model_cfg(tier, tg, all_fixed), scratch, workers=8,
                               timeout=2400, heap="8g")
        if not st.get("ok"):
            raise vlib.Inconclusive("TLC did not complete on HsClient:\n" + "\n".join(
                l for l in out.splitlines() if not l.startswith('"CASE'))[-3000:])
        cases = vlib.extract_cases(out)
        res["model"] = {"states": st.get("distinct", 0), "transitions": st.get("generated", 0),
                        "depth": st.get("depth"), "wall_s": st["wall_s"], "invariants_checked": all_fixed}
    else:
        cases = only_cases
        res["model"] = {}
    if not cases:
        raise vlib.Inconclusive("no cases generated")
    trace, summary = vlib.run_hs_batch(drv, cases, scratch, "hc%d" % len(cases), workers=32)
    res["replay"] = {"cases": summary["cases"], "matched": summary["matched"], "wall_s": summary["wall_s"],
                     "notes": summary["notes"], "crashed": summary["crashed"]}
    bad, events, mwall = vlib.run_monitor("HsObs", MONITOR_CFG, trace, scratch, shards=8)
    res["monitor"] = {"events": events, "wall_s": mwall, "bad": len(bad)}
    by_n = {c["n"]: c for c in cases}
    mism = {m["n"]: m for m in (summary.get("mismatches") or [])}
    res["bad"] = [{"n": n, "op": op, "cfg": by_n[n]["cfg"], "script": script_of(by_n[n]),
                   "expected": [vlib.compact(e) for e in by_n[n]["obs"]],
                   "actual": [vlib.compact(e) for e in mism[n]["actual"]] if n in mism else None,
                   "case": by_n[n]}
                  for (n, op) in bad if n in by_n]
    bad_ns = {n for (n, _) in bad}
    res["drift"] = [{"n": n, "cfg": m["cfg"], "note": m.get("note", "")} for n, m in mism.items()
                    if n not in bad_ns]
    res["samples"] = [{"cfg": c["cfg"], "script": script_of(c)} for c in vlib.sample(cases, 3)]
    res["cases"] = cases
    return res
