"""Engine codec: Codec.tla (TLC enumerates abstract envelopes, wire-tree
deviations, reply-builder inputs and text forms, checks the model-level
invariants and prints every case with the predicted outcome) -> the real codec
is run on every case -> CodecObs.tla monitor."""
import json
import os

import vlib

TOGGLES = ["FixNilDoc", "FixSender", "FixResourceType"]
MONITOR_CFG = ("SPECIFICATION Spec\nCONSTANTS\n  TraceFile = \"@TRACE@\"\n"
               "POSTCONDITION Consumed\nCHECK_DEADLOCK FALSE\n")


def model_cfg(tier, family, tg, with_invariants):
    inv = "Dump"
    if with_invariants:
        inv = "I_Classify I_NoPanic I_Reply I_Text Dump"
    maxdev = 2 if (tier == "thorough" and family == "mut") else 1
    return ("SPECIFICATION Spec\nCONSTANTS\n  Family = \"%s\"\n  Tier = \"%s\"\n  MaxDev = %d\n" % (family, tier, maxdev)
            + "".join("  %s = %s\n" % (k, vlib.tla_bool(tg[k])) for k in TOGGLES)
            + "INVARIANTS " + inv + "\nCHECK_DEADLOCK FALSE\n")


class Fam:
    def __init__(self, families):
        self.families = families
        self.__name__ = "engines.codec"

    def run(self, tier, scratch, drv, only_cases=None):
        tg = vlib.toggles()
        all_fixed = all(tg[k] for k in TOGGLES)
        res = {"engine": "codec", "toggles": {k: tg[k] for k in TOGGLES}}
        if only_cases is None:
            cases = []
            model = {"states": 0, "transitions": 0, "wall_s": 0, "invariants_checked": all_fixed, "families": {}}
            for fam in self.families:
                out, st = vlib.run_tlc("CodecMC", model_cfg(tier, fam, tg, all_fixed), scratch, workers=8,
                                       timeout=2400, heap="8g")
                if not st.get("ok"):
                    raise vlib.Inconclusive("TLC did not complete on Codec/%s:\n" % fam + "\n".join(
                        l for l in out.splitlines() if not l.startswith('"CASE'))[-3000:])
                got = vlib.extract_cases(out)
                model["states"] += st.get("distinct", 0)
                model["transitions"] += st.get("generated", 0)
                model["wall_s"] += st["wall_s"]
                model["families"][fam] = len(got)
                cases += got
            for i, c in enumerate(cases):
                c["n"] = i + 1
            res["model"] = model
        else:
            cases = only_cases
            res["model"] = {}
        if not cases:
            raise vlib.Inconclusive("no cases generated")
        cp = os.path.join(scratch, "codec_cases_%d.ndjson" % len(cases))
        with open(cp, "w") as f:
            for c in cases:
                f.write(json.dumps(c) + "\n")
        trace = cp.replace("cases", "trace")
        rp = cp.replace("cases", "res")
        _, wall = vlib.run_driver(drv, ["codec", "-cases", cp, "-trace", trace, "-results", rp, "-workers", "16",
                                        "-seed", str(vlib.seed())])
        with open(rp) as f:
            summary = json.load(f)
        # model prediction vs real outcome (mutants): disagreement is drift, never a verdict
        by_n = {c["n"]: c for c in cases}
        drift, matched, cur = [], 0, None
        with open(trace) as f:
            for line in f:
                r = json.loads(line)
                if r["k"] == "cfg":
                    cur = r["n"]
                    matched += 1
                elif r["k"] == "mut" and r["pred"] != r["outcome"]:
                    drift.append({"n": cur, "cfg": {"fam": "mut", "dev": by_n[cur].get("dev")},
                                  "note": "model predicted %s, code did %s" % (r["pred"], r["outcome"])})
                    matched -= 1
                elif r["k"] == "text" and (r["strok"] != "y" or r["backok"] != "y"):
                    drift.append({"n": cur, "cfg": {"fam": "text"}, "note": "text form differs from the model: " + json.dumps(by_n[cur].get("c"))})
                    matched -= 1
        res["replay"] = {"cases": summary["cases"], "matched": matched, "wall_s": wall,
                         "notes": summary["notes"], "crashed": 0}
        bad, events, mwall = vlib.run_monitor("CodecObs", MONITOR_CFG, trace, scratch, shards=8)
        res["monitor"] = {"events": events, "wall_s": mwall, "bad": len(bad)}
        res["bad"] = [{"n": n, "op": op, "cfg": {"fam": by_n[n]["fam"]}, "script": by_n[n].get("dev") or by_n[n].get("c") or by_n[n].get("e"),
                       "expected": by_n[n].get("pred"), "actual": None, "case": by_n[n]} for (n, op) in bad if n in by_n]
        bad_ns = {n for (n, _) in bad}
        res["drift"] = [d for d in drift if d["n"] not in bad_ns]
        res["samples"] = vlib.sample(cases, 3)
        res["cases"] = cases
        return res


C01 = Fam(["rt", "text"])
C02 = Fam(["mut"])
C11 = Fam(["reply"])
