"""Engine hs-server: HsServer.tla (exhaustive TLC + behaviour generation) ->
replay of every generated behaviour on the real ServerChannel / Server ->
HsObs.tla monitor over the recorded histories."""
import json
import os
import random
import time

import vlib

HS_TOGGLES = ["FixNegotiateSingle", "FixReleaseOnErr", "FixCallbacksOnlyEstablished"]


def model_cfg(tier, tg, with_invariants):
    inv = "TypeOK Dump"
    props = ""
    if with_invariants:
        inv = "TypeOK P_C03 P_C07 P_C09 P_C10 P_C06 P_C14 Dump"
        props = "PROPERTIES A_Monotone A_EstablishOnlyByAuth\n"
    return ("SPECIFICATION Spec\nCONSTANTS\n  MaxRT = %d\n  Configs <- MCConfigs\n  Tier = \"%s\"\n" % (
        2 if tier == "thorough" else 1, tier)
        + "".join("  %s = %s\n" % (k, vlib.tla_bool(tg[k])) for k in HS_TOGGLES)
        + "INVARIANTS " + inv + "\n" + props + "CHECK_DEADLOCK FALSE\n")


MONITOR_CFG = ("SPECIFICATION Spec\nCONSTANTS\n  TraceFile = \"@TRACE@\"\n  Role = \"server\"\n"
               "POSTCONDITION Consumed\nCHECK_DEADLOCK FALSE\n")


def script_of(case):
    """The input part of a case: what the peer/application/callbacks do."""
    return [vlib.compact(e) for e in case["obs"] if e.get("k") in ("in", "app", "auth", "reg")]


def run(tier, scratch, drv, only_cases=None):
    tg = vlib.toggles()
    all_fixed = all(tg[k] for k in HS_TOGGLES)
    res = {"engine": "hs-server", "toggles": {k: tg[k] for k in HS_TOGGLES}}
    if only_cases is None:
        out, st = vlib.run_tlc("HsServerMC", model_cfg(tier, tg, all_fixed), scratch, workers=8,
                               timeout=1800, heap="6g")
        if not st.get("ok"):
            raise vlib.Inconclusive("TLC did not complete on HsServer:\n" + "\n".join(
                l for l in out.splitlines() if not l.startswith('"CASE'))[-3000:])
        cases = vlib.extract_cases(out)
        res["model"] = {"states": st.get("distinct", 0), "transitions": st.get("generated", 0),
                        "depth": st.get("depth"), "wall_s": st["wall_s"],
                        "invariants_checked": all_fixed}
        # variants of refused handshakes on the real Server in which the client resets its connection right
        # after its last symbol instead of waiting for the refusal (monitor only: C14, server side released)
        refused = [c for c in cases if c["cfg"]["flavour"] == "server"
                   and not any(e.get("k") == "in" and e.get("kind") in ("eof", "tlsup") for e in c["obs"])
                   and not any(e.get("k") == "out" and e.get("st") == "established" for e in c["obs"])
                   and any(e.get("k") == "in" for e in c["obs"])]
        rng = random.Random(vlib.seed())
        picked = rng.sample(refused, min(len(refused), 400 if tier == "quick" else 3000))
        for c in picked:
            v = json.loads(json.dumps(c))
            v["cfg"]["rst"] = "y"
            v["n"] = len(cases) + 1
            cases.append(v)
        res["model"]["reset_variants"] = len(picked)
    else:
        cases = only_cases
        res["model"] = {}
    if not cases:
        raise vlib.Inconclusive("no cases generated")
    trace, summary = vlib.run_hs_batch(drv, cases, scratch, "hs%d" % len(cases), workers=32)
    res["replay"] = {"cases": summary["cases"], "matched": summary["matched"], "wall_s": summary["wall_s"],
                     "notes": summary["notes"], "crashed": summary["crashed"]}
    bad, events, mwall = vlib.run_monitor("HsObs", MONITOR_CFG, trace, scratch, shards=8)
    res["monitor"] = {"events": events, "wall_s": mwall, "bad": len(bad)}
    by_n = {c["n"]: c for c in cases}
    mism = {m["n"]: m for m in (summary.get("mismatches") or [])}
    res["bad"] = [{"n": n, "op": op, "cfg": by_n[n]["cfg"], "script": script_of(by_n[n]),
                   "expected": [vlib.compact(e) for e in by_n[n]["obs"]],
                   "actual": [vlib.compact(e) for e in mism[n]["actual"]] if n in mism else None,
                   "case": by_n[n]}
                  for (n, op) in bad if n in by_n]
    bad_ns = {n for (n, _) in bad}
    res["drift"] = [{"n": n, "cfg": m["cfg"], "note": m.get("note", "")} for n, m in mism.items()
                    if n not in bad_ns]
    res["samples"] = [{"cfg": c["cfg"], "script": script_of(c)} for c in vlib.sample(cases, 3)]
    res["cases"] = cases
    return res
