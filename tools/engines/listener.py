"""Engine listener: Listener.tla (contract of a transport listener for the
in-process, TCP and WebSocket implementations; every operation sequence inside
the bound) -> each sequence executed on a real listener, compared step by step ->
LisObs.tla monitor (a closed listener takes no dial and hands out no connection)."""
import json
import os

import vlib

MONITOR_CFG = ("SPECIFICATION Spec\nCONSTANTS\n  TraceFile = \"@TRACE@\"\n"
               "POSTCONDITION Consumed\nCHECK_DEADLOCK FALSE\n")


def run(tier, scratch, drv, only_cases=None):
    res = {"engine": "listener", "toggles": {}}
    if only_cases is None:
        depth = 4 if tier == "quick" else 6
        cases, states, gen, wall = [], 0, 0, 0.0
        for kind in ("inproc", "tcp", "ws"):
            cfg = ("SPECIFICATION Spec\nCONSTANTS\n  Kind = \"%s\"\n  MaxOps = %d\n"
                   "INVARIANTS TypeOK P_L Dump\nCHECK_DEADLOCK FALSE\n" % (kind, depth if kind != "inproc" or tier == "quick" else 5))
            out, st = vlib.run_tlc("ListenerMC", cfg, scratch, workers=2, timeout=600, heap="2g")
            if not st.get("ok"):
                raise vlib.Inconclusive("TLC did not complete on Listener (%s):\n" % kind + "\n".join(
                    l for l in out.splitlines() if not l.startswith('"CASE'))[-3000:])
            cases += vlib.extract_cases(out)
            states += st.get("distinct", 0)
            gen += st.get("generated", 0)
            wall += st["wall_s"]
        # a Server over two listeners, the first closed behind its back: Close must still stop the second one
        for first in ("tcp", "ws"):
            cases.append({"cfg": {"kind": "srv2", "url": first},
                          "obs": [{"k": "op", "op": "listen", "res": "ok"}, {"k": "op", "op": "close", "res": "ok|err"},
                                  {"k": "op", "op": "dial", "res": "err"}]})
        # a Server whose second listener cannot bind: ListenAndServe returns by itself, Close must stop the first
        cases.append({"cfg": {"kind": "srv2busy"},
                      "obs": [{"k": "op", "op": "listen", "res": "ok"}, {"k": "op", "op": "close", "res": "ok|err"},
                              {"k": "op", "op": "dial", "res": "err"}]})
        cases.append({"cfg": {"kind": "wsupgrade"},
                      "obs": [{"k": "op", "op": "listen", "res": "ok"}, {"k": "op", "op": "close", "res": "ok|err"},
                              {"k": "op", "op": "halfopen", "res": "closed"}]})
        for i, c in enumerate(cases):
            c["n"] = i + 1
        res["model"] = {"states": states, "transitions": gen, "wall_s": round(wall, 2), "invariants_checked": True}
    else:
        cases = only_cases
        res["model"] = {}
    if not cases:
        raise vlib.Inconclusive("no cases generated")
    cp = os.path.join(scratch, "lis_cases_%d.ndjson" % len(cases))
    with open(cp, "w") as f:
        for c in cases:
            f.write(json.dumps(c) + "\n")
    trace = cp.replace("cases", "trace")
    rp = cp.replace("cases", "res")
    _, wall = vlib.run_driver(drv, ["lis", "-cases", cp, "-trace", trace, "-results", rp, "-workers", "16"])
    with open(rp) as f:
        summary = json.load(f)
    res["replay"] = {"cases": summary["cases"], "matched": summary["matched"], "wall_s": wall, "notes": 0, "crashed": 0}
    bad, events, mwall = vlib.run_monitor("LisObs", MONITOR_CFG, trace, scratch, shards=2)
    res["monitor"] = {"events": events, "wall_s": mwall, "bad": len(bad)}
    by_n = {c["n"]: c for c in cases}
    mism = {m["n"]: m for m in (summary.get("mismatches") or [])}
    res["bad"] = [{"n": n, "op": op, "cfg": by_n[n]["cfg"], "script": [e["op"] for e in by_n[n]["obs"]],
                   "expected": by_n[n]["obs"], "actual": mism[n]["actual"] if n in mism else None,
                   "case": by_n[n]} for (n, op) in bad if n in by_n]
    bad_ns = {n for (n, _) in bad}
    res["drift"] = [{"n": n, "cfg": m["cfg"], "note": m.get("note", "")} for n, m in mism.items() if n not in bad_ns]
    res["samples"] = [{"cfg": c["cfg"], "ops": [[e["op"], e["res"]] for e in c["obs"]]} for c in vlib.sample(cases, 3)]
    res["cases"] = cases
    return res
