"""Engine blocking: Blocking.tla (wait automata of every context-taking operation
x transport x deadline/cancel x moment, bound checked by TLC) -> each case timed
on the real operation against a peer that makes no progress -> BlockObs.tla."""
import json
import os

import vlib

TOGGLES = ["FixInprocSendCtx", "FixHandshakeCtx", "FixWsSendDeadline", "FixFinishClose"]
MONITOR_CFG = ("SPECIFICATION Spec\nCONSTANTS\n  TraceFile = \"@TRACE@\"\n"
               "POSTCONDITION Consumed\nCHECK_DEADLOCK FALSE\n")


def run(tier, scratch, drv, only_cases=None):
    tg = vlib.toggles()
    fixed = all(tg[k] for k in TOGGLES)
    res = {"engine": "blocking", "toggles": {k: tg[k] for k in TOGGLES}}
    if only_cases is None:
        cfg = ("SPECIFICATION Spec\nCONSTANTS\n  Cases <- MCCases\n"
               + "".join("  %s = %s\n" % (k, vlib.tla_bool(tg[k])) for k in TOGGLES)
               + "INVARIANTS TypeOK Dump" + (" Bounded" if fixed else "") + "\nCHECK_DEADLOCK FALSE\n")
        out, st = vlib.run_tlc("BlockingMC", cfg, scratch, workers=1, timeout=600, heap="2g")
        if not st.get("ok"):
            raise vlib.Inconclusive("TLC did not complete on Blocking:\n" + "\n".join(
                l for l in out.splitlines() if not l.startswith('"CASE'))[-3000:])
        cases = vlib.extract_cases(out)
        res["model"] = {"states": st.get("distinct", 0), "transitions": st.get("generated", 0),
                        "depth": st.get("depth"), "wall_s": st["wall_s"], "invariants_checked": fixed}
        if tier == "thorough":   # timing is the observable: every case several times
            cases = [dict(c) for _ in range(3) for c in cases]
        for i, c in enumerate(cases):
            c["n"] = i + 1
    else:
        cases = only_cases
        res["model"] = {}
    if not cases:
        raise vlib.Inconclusive("no cases generated")
    cp = os.path.join(scratch, "blk_cases_%d.ndjson" % len(cases))
    with open(cp, "w") as f:
        for c in cases:
            f.write(json.dumps(c) + "\n")
    trace = cp.replace("cases", "trace")
    rp = cp.replace("cases", "res")
    _, wall = vlib.run_driver(drv, ["block", "-cases", cp, "-trace", trace, "-results", rp, "-workers", "12"])
    with open(rp) as f:
        summary = json.load(f)
    if summary["notes"] > len(cases) // 4:
        raise vlib.Inconclusive("%d of %d cases could not be set up" % (summary["notes"], len(cases)))
    res["replay"] = {"cases": summary["cases"], "matched": summary["matched"], "wall_s": wall,
                     "notes": summary["notes"], "crashed": 0}
    bad, events, mwall = vlib.run_monitor("BlockObs", MONITOR_CFG, trace, scratch, shards=2)
    res["monitor"] = {"events": events, "wall_s": mwall, "bad": len(bad)}
    by_n = {c["n"]: c for c in cases}
    act = {r["n"]: r for r in summary["results"]}
    res["bad"] = [{"n": n, "op": op, "cfg": by_n[n]["cfg"], "script": by_n[n]["cfg"], "expected": None,
                   "actual": act[n]["actual"], "case": by_n[n]} for (n, op) in bad if n in by_n]
    bad_ns = {n for (n, _) in bad}
    res["drift"] = [{"n": r["n"], "cfg": r["cfg"], "note": r.get("note", "")} for r in summary["results"]
                    if not r.get("matched") and r["n"] not in bad_ns]
    res["samples"] = [{"cfg": c["cfg"]} for c in vlib.sample(cases, 3)]
    res["cases"] = cases
    return res
