"""Engine pending: Pending.tla (every interleaving of the lock regions of the
pending-command table for a small instance, checked by TLC) -> each generated
interleaving is forced onto the real goroutines through gates at the verif
hooks, plus perturbed free runs with an adversarial responder -> PendObs.tla."""
import json
import os

import vlib

TOGGLES = ["FixLookupDelete", "FixOwnCleanup"]
MONITOR_CFG = ("SPECIFICATION Spec\nCONSTANTS\n  TraceFile = \"@TRACE@\"\n"
               "POSTCONDITION Consumed\nCHECK_DEADLOCK FALSE\n")


def model_cfg(tier, tg, with_invariants):
    inv = "TypeOK Dump"
    if with_invariants:
        inv = "TypeOK EntryIntact P_C05 Dump"
    return ("SPECIFICATION Spec\nCONSTANTS\n  Callers <- MCCallers\n  IdOf <- MCIdOf\n  RespIds <- MCRespIds\n"
            "  Cancellable <- MCCancellable\n  MaxResp = %d\n  Tier = \"%s\"\n" % (2, tier)
            + "".join("  %s = %s\n" % (k, vlib.tla_bool(tg[k])) for k in TOGGLES)
            + "INVARIANTS " + inv + "\nCHECK_DEADLOCK FALSE\n")


def run(tier, scratch, drv, only_cases=None):
    tg = vlib.toggles()
    all_fixed = all(tg[k] for k in TOGGLES)
    res = {"engine": "pending", "toggles": {k: tg[k] for k in TOGGLES}}
    if only_cases is None:
        out, st = vlib.run_tlc("PendingMC", model_cfg(tier, tg, all_fixed), scratch, workers=8, timeout=2400, heap="8g")
        if not st.get("ok"):
            raise vlib.Inconclusive("TLC did not complete on Pending:\n" + "\n".join(
                l for l in out.splitlines() if not l.startswith('"CASE'))[-3000:])
        cases = vlib.extract_cases(out)
        res["model"] = {"states": st.get("distinct", 0), "transitions": st.get("generated", 0),
                        "depth": st.get("depth"), "wall_s": st["wall_s"], "invariants_checked": all_fixed,
                        "forced_schedules": len(cases)}
        if tg["FixLookupDelete"]:
            # probes: the interleavings of the finer-grained (as-written) model, replayed without a
            # prediction; on code that has no gap between lookup and delete they collapse harmlessly,
            # on code that has one they are the schedules that break the table
            tg2 = dict(tg, FixLookupDelete=False)
            out2, st2 = vlib.run_tlc("PendingMC", model_cfg(tier, tg2, False), scratch, workers=8, timeout=2400, heap="8g")
            if not st2.get("ok"):
                raise vlib.Inconclusive("TLC did not complete on Pending (probe model)")
            probes = [c for c in vlib.extract_cases(out2) if any(s["a"] == "Delete" for s in c["script"])]
            if tier == "quick":
                probes = vlib.sample(probes, 1500)
            for c in probes:
                c["cfg"]["mode"] = "probe"
                c["obs"] = []
            cases += probes
            res["model"]["probe_schedules"] = len(probes)
        nfree = 400 if tier == "quick" else 4000
        for i in range(nfree):
            cases.append({"cfg": {"tier": tier, "mode": "free", "seed": vlib.seed()}, "script": [], "obs": []})
        for i, c in enumerate(cases):
            c["n"] = i + 1
        res["model"]["free_runs"] = nfree
    else:
        cases = only_cases
        res["model"] = {}
    cp = os.path.join(scratch, "pend_cases_%d.ndjson" % len(cases))
    with open(cp, "w") as f:
        for c in cases:
            f.write(json.dumps(c) + "\n")
    trace = cp.replace("cases", "trace")
    rp = cp.replace("cases", "res")
    _, wall = vlib.run_driver(drv, ["pend", "-cases", cp, "-trace", trace, "-results", rp, "-workers", "16"])
    with open(rp) as f:
        summary = json.load(f)
    forced = sum(1 for c in cases if c["cfg"].get("mode") != "free")
    res["replay"] = {"cases": summary["cases"], "matched": summary["matched"], "wall_s": wall,
                     "notes": summary["notes"], "crashed": 0, "sched_failures": summary.get("sched_failures", 0)}
    bad, events, mwall = vlib.run_monitor("PendObs", MONITOR_CFG, trace, scratch, shards=8)
    res["monitor"] = {"events": events, "wall_s": mwall, "bad": len(bad)}
    if not bad and forced and summary.get("sched_failures", 0) > forced // 2:
        raise vlib.Inconclusive("the gate scheduler could not drive %d of %d schedules" % (summary["sched_failures"], forced))
    by_n = {c["n"]: c for c in cases}
    mism = {m["n"]: m for m in (summary.get("mismatches") or [])}
    bad_set = {n for (n, _) in bad}
    if bad_set:      # recorded histories of the offending cases (free runs have no prediction to differ from)
        cur = None
        with open(trace) as f:
            for line in f:
                r = json.loads(line)
                if r["k"] == "cfg":
                    cur = r["n"]
                    if cur in bad_set and cur not in mism:
                        mism[cur] = {"n": cur, "cfg": by_n[cur]["cfg"], "actual": [], "free": True}
                elif cur in bad_set and mism[cur].get("free"):
                    mism[cur]["actual"].append(r)
    res["bad"] = [{"n": n, "op": op, "cfg": by_n[n]["cfg"], "script": by_n[n]["script"],
                   "expected": by_n[n]["obs"], "actual": mism[n]["actual"] if n in mism else None,
                   "case": by_n[n]} for (n, op) in bad if n in by_n]
    bad_ns = {n for (n, _) in bad}
    res["drift"] = [{"n": n, "cfg": m["cfg"], "note": m.get("note", "")} for n, m in mism.items()
                    if n not in bad_ns and not m.get("free")]
    res["samples"] = [{"script": c["script"]} for c in vlib.sample([c for c in cases if c["script"]], 3)]
    res["cases"] = cases
    return res
