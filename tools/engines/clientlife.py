"""Engine client-life: ClientLife.tla (cached channel, listener loop, faults;
invariant NoSpin and liveness Recovers under fairness, checked by TLC) -> a real
Client against a scripted server for every fault kind x moment -> CliObs.tla."""
import json
import os

import vlib

TOGGLES = ["FixRcvErrRelease"]
FAULTS = ["finish", "fail", "refuse", "abrupt", "reset", "half", "garbage", "junk", "oversized"]
TRANSPORTS = ["tcp", "tls", "ws", "wss"]
MOMENTS = ["idle", "midsend", "repeat"]
MONITOR_CFG = ("SPECIFICATION Spec\nCONSTANTS\n  TraceFile = \"@TRACE@\"\n"
               "POSTCONDITION Consumed\nCHECK_DEADLOCK FALSE\n")


def run(tier, scratch, drv, only_cases=None):
    tg = vlib.toggles()
    fixed = all(tg[k] for k in TOGGLES)
    res = {"engine": "client-life", "toggles": {k: tg[k] for k in TOGGLES}}
    if only_cases is None:
        res["model"] = {"states": 0, "transitions": 0, "invariants_checked": fixed}
        if fixed:
            cfg = ("SPECIFICATION Spec\nCONSTANTS\n  Faults = {%s}\n  MaxFaults = %d\n  FixRcvErrRelease = TRUE\n"
                   "INVARIANTS TypeOK NoSpin\nPROPERTIES Recovers\nCHECK_DEADLOCK FALSE\n"
                   % (", ".join('"%s"' % f for f in FAULTS), 2 if tier == "quick" else 4))
            out, st = vlib.run_tlc("ClientLife", cfg, scratch, workers=1, timeout=1200, heap="4g")
            if not st.get("ok"):
                raise vlib.Inconclusive("TLC did not complete on ClientLife:\n" + out[-3000:])
            res["model"].update({"states": st.get("distinct", 0), "transitions": st.get("generated", 0),
                                 "depth": st.get("depth"), "wall_s": st["wall_s"], "liveness_checked": True})
        reps = 1 if tier == "quick" else 4
        cases = []
        for rep in range(reps):
            for tr in TRANSPORTS:
                for f in FAULTS:
                    if tr in ("ws", "wss") and f == "oversized":
                        continue
                    if f == "refuse" and tr != "tcp":
                        continue   # the websocket transport has no read limit: a large envelope is no fault there
                    for m in MOMENTS:
                        cases.append({"n": len(cases) + 1, "cfg": {"transport": tr, "fault": f, "moment": m,
                                                                   "seed": vlib.seed() * 10 + rep}})
        cases.append({"n": len(cases) + 1, "cfg": {"transport": "tcp", "fault": "none", "moment": "ping", "seed": vlib.seed()}})
        cases.append({"n": len(cases) + 1, "cfg": {"transport": "tcp", "fault": "none", "moment": "srvping", "seed": vlib.seed()}})
        cases.append({"n": len(cases) + 1, "cfg": {"transport": "tcp", "fault": "vanish", "moment": "idle", "seed": vlib.seed()}})
        for st in ("finishing", "finished", "failed", "new", "negotiating", "negotiating-empty", "authenticating"):
            cases.append({"n": len(cases) + 1, "cfg": {"transport": "tcp", "fault": st, "moment": "handshake",
                                                       "seed": vlib.seed()}})
    else:
        cases = only_cases
        res["model"] = {}
    iso = [c for c in cases if c["cfg"]["moment"] in ("handshake", "ping", "srvping") or c["cfg"]["fault"] == "vanish"]
    cp = os.path.join(scratch, "cli_cases_%d.ndjson" % len(cases))
    with open(cp, "w") as f:
        for c in cases:
            if c not in iso:
                f.write(json.dumps(c) + "\n")
    trace = cp.replace("cases", "trace")
    rp = cp.replace("cases", "res")
    _, wall = vlib.run_driver(drv, ["cli", "-cases", cp, "-trace", trace, "-results", rp, "-workers", "24"])
    with open(rp) as f:
        summary = json.load(f)
    # handshake cases run one process each: a panic in a goroutine of the library would end the whole batch
    for c in iso:
        one = os.path.join(scratch, "cli_one_%d" % c["n"])
        with open(one + ".cases", "w") as f:
            f.write(json.dumps(c) + "\n")
        import subprocess
        try:
            p = subprocess.run([drv, "cli", "-cases", one + ".cases", "-trace", one + ".trace", "-results", one + ".res",
                                "-workers", "1"], capture_output=True, text=True, timeout=120)
            rc, err = p.returncode, p.stderr
        except subprocess.TimeoutExpired:
            rc, err = -1, "timeout"
        if rc == 0:
            with open(one + ".trace") as f:
                lines = f.read()
            with open(one + ".res") as f:
                summary["results"] += json.load(f)["results"]
        else:
            why = "panic" if "panic:" in err else "died"
            first = [l for l in err.splitlines() if l.startswith("panic:")][:1]
            ev = {"k": "panic", "n": 0, "tag": "", "res": (first[0] if first else why)[:200]}
            cj = lambda o: json.dumps(o, separators=(",", ":"))   # as the Go writer does (case boundaries are found textually)
            lines = cj({"k": "cfg", "n": c["n"]}) + "\n" + cj(ev) + "\n" + cj({"k": "end", "n": 0, "tag": "", "res": "crashed"}) + "\n"
            summary["results"].append({"n": c["n"], "cfg": c["cfg"], "actual": [ev]})
        with open(trace, "a") as f:
            f.write(lines)
        summary["cases"] += 1
    if summary["notes"] > len(cases) // 3:
        raise vlib.Inconclusive("%d of %d cases could not be set up" % (summary["notes"], len(cases)))
    res["replay"] = {"cases": summary["cases"], "matched": summary["cases"] - summary["notes"], "wall_s": wall,
                     "notes": summary["notes"], "crashed": 0}
    bad, events, mwall = vlib.run_monitor("CliObs", MONITOR_CFG, trace, scratch, shards=4)
    res["monitor"] = {"events": events, "wall_s": mwall, "bad": len(bad)}
    by_n = {c["n"]: c for c in cases}
    act = {r["n"]: r for r in summary["results"]}
    res["bad"] = [{"n": n, "op": op, "cfg": by_n[n]["cfg"], "script": by_n[n]["cfg"], "expected": None,
                   "actual": [e for e in (act[n]["actual"] or []) if e["k"] not in ("send", "recv")],
                   "case": by_n[n]} for (n, op) in bad if n in by_n]
    res["drift"] = [{"n": r["n"], "cfg": r["cfg"], "note": r["note"]} for r in summary["results"] if r.get("note")]
    res["samples"] = [c["cfg"] for c in vlib.sample(cases, 3)]
    res["cases"] = cases
    return res
