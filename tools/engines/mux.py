"""Engine mux: Mux.tla (every handler table x inbound sequence inside the
bounds, checked by TLC) -> each case on a real EnvelopeMux over a real TCP
session (real Server for the server role, ListenClient for the client role) ->
MuxObs.tla monitor."""
import json
import os

import vlib

MONITOR_CFG = ("SPECIFICATION Spec\nCONSTANTS\n  TraceFile = \"@TRACE@\"\n"
               "POSTCONDITION Consumed\nCHECK_DEADLOCK FALSE\n")


def run(tier, scratch, drv, only_cases=None):
    res = {"engine": "mux", "toggles": {}}
    if only_cases is None:
        cfg = ("SPECIFICATION Spec\nCONSTANTS\n  Tabs <- MCTabs\n  Inboxes <- MCInboxes\n  Tier = \"%s\"\n"
               "INVARIANTS P_C20 Dump\nCHECK_DEADLOCK FALSE\n" % tier)
        out, st = vlib.run_tlc("MuxMC", cfg, scratch, workers=8, timeout=2400, heap="8g")
        if not st.get("ok"):
            raise vlib.Inconclusive("TLC did not complete on Mux:\n" + "\n".join(
                l for l in out.splitlines() if not l.startswith('"CASE'))[-3000:])
        cases = vlib.extract_cases(out)
        res["model"] = {"states": st.get("distinct", 0), "transitions": st.get("generated", 0),
                        "depth": st.get("depth"), "wall_s": st["wall_s"], "invariants_checked": True}
    else:
        cases = only_cases
        res["model"] = {}
    if not cases:
        raise vlib.Inconclusive("no cases generated")
    cp = os.path.join(scratch, "mux_cases_%d.ndjson" % len(cases))
    with open(cp, "w") as f:
        for c in cases:
            f.write(json.dumps(c) + "\n")
    trace = cp.replace("cases", "trace")
    rp = cp.replace("cases", "res")
    _, wall = vlib.run_driver(drv, ["mux", "-cases", cp, "-trace", trace, "-results", rp, "-workers", "48"])
    with open(rp) as f:
        summary = json.load(f)
    res["replay"] = {"cases": summary["cases"], "matched": summary["matched"], "wall_s": wall,
                     "notes": summary["notes"], "crashed": 0}
    bad, events, mwall = vlib.run_monitor("MuxObs", MONITOR_CFG, trace, scratch, shards=8)
    res["monitor"] = {"events": events, "wall_s": mwall, "bad": len(bad)}
    by_n = {c["n"]: c for c in cases}
    mism = {m["n"]: m for m in (summary.get("mismatches") or [])}
    res["bad"] = [{"n": n, "op": op, "cfg": by_n[n]["cfg"], "script": by_n[n]["inbox"],
                   "expected": by_n[n]["obs"], "actual": mism[n]["actual"] if n in mism else None,
                   "case": by_n[n]} for (n, op) in bad if n in by_n]
    bad_ns = {n for (n, _) in bad}
    res["drift"] = [{"n": n, "cfg": m["cfg"], "note": m.get("note", "")} for n, m in mism.items() if n not in bad_ns]
    res["samples"] = [{"cfg": c["cfg"], "inbox": c["inbox"]} for c in vlib.sample(cases, 3)]
    res["cases"] = cases
    return res
