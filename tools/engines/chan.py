"""Engine channel: Channel.tla (sender / mutex / wire / receiver / stream /
consumer / FinishSession interleavings, checked exhaustively by TLC for a small
instance) + perturbed free runs of real sessions over every transport, one
process per run, validated by the ChanObs.tla monitor."""
import json
import os
import random

import vlib

TOGGLES = ["FixSessionWriteLock", "FixSendGuardUnderLock"]
OPEN = ["FixGracefulClose"]   # deviations that are open findings: modelled, not repaired
MONITOR_CFG = ("SPECIFICATION Spec\nCONSTANTS\n  TraceFile = \"@TRACE@\"\n"
               "POSTCONDITION Consumed\nCHECK_DEADLOCK FALSE\n")
TRANSPORTS = ["inproc", "tcp", "tls", "ws", "wss"]
INITIATORS = ["cfinish", "sfinish", "sfail", "sclose"]


def model_cfg(tier, tg, graceful=True):
    k, w, per = (1, 2, 2) if tier == "quick" else (2, 2, 2)
    return ("SPECIFICATION Spec\nCONSTANTS\n  Senders <- MCSenders\n  PerSender = %d\n  K = %d\n  W = %d\n" % (per, k, w)
            + "".join("  %s = %s\n" % (x, vlib.tla_bool(tg[x])) for x in TOGGLES)
            + "  FixGracefulClose = %s\n" % vlib.tla_bool(graceful)
            + "INVARIANTS TypeOK P_C04 P_C13 WriterExclusion NoDataAfterFinished\nCHECK_DEADLOCK FALSE\n")


def configs(tier, family):
    rng = random.Random(vlib.seed())
    out = []
    if family == "C17":
        for rep in range(6 if tier == "quick" else 40):
            out.append({"transport": "mixed", "buffer": rng.choice([0, 1, 8]), "senders": 1,
                        "count": rng.choice([3, 8]) if tier == "quick" else rng.choice([8, 30]),
                        "payload": "small", "delay": 0, "initiator": "cfinish", "busy": False,
                        "seed": vlib.seed() * 100 + rep, "sessions": rng.choice([3, 5, 6]) if tier == "quick" else rng.choice([6, 9, 12])})
        for rep in range(2 if tier == "quick" else 10):   # all sessions over one transport kind, more traffic
            out.append({"transport": "ws", "buffer": rng.choice([0, 1, 8]), "senders": 1, "count": 30,
                        "payload": "small", "delay": 0, "initiator": "cfinish", "busy": False,
                        "seed": vlib.seed() * 100 + 50 + rep, "sessions": 6})
        return out
    reps = 1 if tier == "quick" else 6
    for rep in range(reps):
        for tr in TRANSPORTS:
            for ini in INITIATORS:
                for busy in ([False, True] if family != "C04" else [False]):
                    if family == "C06" and ini in ("cfinish", "cclose") and busy:
                        continue   # the established-phase send guard is about the side that sends the terminal envelope
                    out.append({"transport": tr, "buffer": rng.choice([0, 1, 8]), "senders": rng.choice([1, 2, 4]),
                                "count": rng.choice([4, 10, 25]) if tier == "quick" else rng.choice([10, 40, 120]),
                                "payload": rng.choice(["small", "big"]), "delay": rng.choice([0, 0, 150]),
                                "initiator": ini, "busy": busy, "seed": vlib.seed() * 100 + rep})
    if family in ("C04", "C13"):
        # a session that stays silent for longer than the TCP read poll (5 s) and then carries traffic again
        for tr in (["tcp"] if tier == "quick" else ["tcp", "tls", "ws"]):
            for k in (0, 1):   # second phase from the client only / from the server only
                out.append({"transport": tr, "buffer": 8, "senders": 2, "count": 6, "payload": "small", "delay": 0,
                            "initiator": "cfinish", "busy": False, "seed": vlib.seed() * 100 + 90 + k, "idle": 5600})
    if family == "C06":
        # the window between the established check of a send and its turn at the mutex: many senders, short
        # envelopes, the session ended by the server in the middle of it, the server's wire tapped (tcp, tls)
        for rep in range(6 if tier == "quick" else 40):
            for tr in ("tcp", "tls"):
                out.append({"transport": tr, "buffer": 8, "senders": 4, "count": 200, "payload": "small", "delay": 0,
                            "initiator": rng.choice(["sfinish", "sfail"]), "busy": True, "seed": vlib.seed() * 100 + 70 + rep})
    if family == "C13":
        # the terminating server's own consumer is stuck in a handler while the peer keeps sending that kind:
        # its receiver sits in the hand-over to a full stream when the end is requested
        for rep in range(reps):
            for kind in ("msg", "not", "req", "resp"):
                for ini in ("sfinish", "sfail", "sclose"):
                    for tr in (TRANSPORTS if tier != "quick" else [rng.choice(TRANSPORTS)]):
                        out.append({"transport": tr, "buffer": rng.choice([0, 1, 8]), "senders": rng.choice([1, 2]),
                                    "count": 14, "payload": "small", "delay": 0, "initiator": ini, "busy": True,
                                    "seed": vlib.seed() * 100 + rep, "stall": kind})
        # the client finishes while the server is in the middle of a burst towards it and the client's streams
        # are consumed by a dispatch loop: more envelopes are in flight than the streams hold, and the server's
        # 'finished' is behind them (the client has to keep consuming until it arrives)
        for rep in range(4 if tier == "quick" else 24):
            out.append({"transport": "inproc" if rep % 2 == 0 else TRANSPORTS[1 + (vlib.seed() + rep) % 4], "buffer": rng.choice([0, 1]),
                        "senders": 4, "count": 200, "payload": "small", "delay": 0, "initiator": "cfinish",
                        "busy": True, "seed": vlib.seed() * 100 + 60 + rep})
    if family == "C04":   # delivery: more traffic shapes, orderly end only
        extra = []
        for c in out:
            if c["initiator"] in ("cfinish", "sfinish"):
                extra.append(c)
        out = extra
    return out


class Fam:
    def __init__(self, family):
        self.family = family
        self.__name__ = "engines.chan"

    def run(self, tier, scratch, drv, only_cases=None):
        tg = vlib.toggles()
        res = {"engine": "channel", "toggles": {k: tg[k] for k in TOGGLES}}
        if only_cases is None:
            res["model"] = {"states": 0, "transitions": 0, "invariants_checked": all(tg[k] for k in TOGGLES)}
            if self.family == "C17":
                cfgtxt = ("SPECIFICATION Spec\nCONSTANTS\n  Clients <- MCClients\n  Nodes <- MCNodes\n  PerClient = %d\n"
                          "INVARIANTS P_C17\nCHECK_DEADLOCK FALSE\n" % (1 if tier == "quick" else 2))
                out, st = vlib.run_tlc("IsoMC", cfgtxt, scratch, workers=8, timeout=2400, heap="8g")
                if not st.get("ok"):
                    raise vlib.Inconclusive("TLC did not complete on Iso:\n" + out[-3000:])
                res["model"].update({"states": st.get("distinct", 0), "transitions": st.get("generated", 0),
                                     "depth": st.get("depth"), "wall_s": st["wall_s"], "invariants_checked": True})
            elif res["model"]["invariants_checked"]:
                out, st = vlib.run_tlc("ChannelMC", model_cfg(tier, tg), scratch, workers=8, timeout=2400, heap="8g")
                if not st.get("ok"):
                    raise vlib.Inconclusive("TLC did not complete on Channel:\n" + out[-3000:])
                res["model"].update({"states": st.get("distinct", 0), "transitions": st.get("generated", 0),
                                     "depth": st.get("depth"), "wall_s": st["wall_s"]})
                if self.family == "C13" and not tg.get("FixGracefulClose", False):
                    # the open finding: with the close as written the model itself loses the terminal envelope
                    out2, st2 = vlib.run_tlc("ChannelMC", model_cfg(tier, tg, graceful=False), scratch, workers=8,
                                             timeout=1200, heap="8g")
                    res["model"]["as_written_close_violates_P_C13"] = "Invariant P_C13 is violated" in out2
            cases = [{"n": i + 1, "cfg": c} for i, c in enumerate(configs(tier, self.family))]
        else:
            cases = only_cases
            res["model"] = {}
        cp = os.path.join(scratch, "chan_cases_%s_%d.ndjson" % (self.family, len(cases)))
        with open(cp, "w") as f:
            for c in cases:
                f.write(json.dumps(c) + "\n")
        trace = cp.replace("cases", "trace")
        rp = cp.replace("cases", "res")
        _, wall = vlib.run_driver(drv, ["chan", "-cases", cp, "-trace", trace, "-results", rp, "-workers", "12"])
        with open(rp) as f:
            summary = json.load(f)
        if summary["setup_failures"] > len(cases) // 3:
            raise vlib.Inconclusive("%d of %d runs could not be set up" % (summary["setup_failures"], len(cases)))
        res["replay"] = {"cases": summary["cases"], "matched": summary["cases"] - summary["setup_failures"], "wall_s": wall,
                         "notes": summary["setup_failures"], "crashed": summary["crashed"]}
        bad, events, mwall = vlib.run_monitor("ChanObs", MONITOR_CFG, trace, scratch, shards=8)
        res["monitor"] = {"events": events, "wall_s": mwall, "bad": len(bad)}
        by_n = {c["n"]: c for c in cases}
        actual = {}
        bad_set = {n for n, _ in bad}
        if bad_set:
            cur = None
            with open(trace) as f:
                for line in f:
                    r = json.loads(line)
                    if r["k"] == "cfg":
                        cur = r["n"]
                    elif cur in bad_set:
                        actual.setdefault(cur, []).append(r)
        res["bad"] = [{"n": n, "op": op, "cfg": by_n[n]["cfg"], "script": by_n[n]["cfg"], "expected": None,
                       "actual": [e for e in actual.get(n, []) if e["k"] not in ("sendcall", "sent", "delivered")][:60],
                       "case": by_n[n]} for (n, op) in bad if n in by_n]
        res["drift"] = [{"n": r["n"], "cfg": by_n[r["n"]]["cfg"], "note": r["note"]} for r in summary["records"] if r.get("note")]
        res["samples"] = [c["cfg"] for c in vlib.sample(cases, 3)]
        res["cases"] = cases
        return res


C04 = Fam("C04")
C13 = Fam("C13")
C17 = Fam("C17")
C06 = Fam("C06")
