"""Engine tcp-stream: TcpStream.tla (exhaustive TLC over write/read fault plans,
fragmentations and sizes + behaviour generation) -> replay of every plan on the
real tcpTransport over scripted connections -> TcpObs.tla monitor."""
import json
import os

import vlib

TOGGLES = ["FixShortWrite", "FixReadN"]


def model_cfg(tier, family, tg, with_invariants):
    inv = "TypeOK Dump"
    if with_invariants:
        inv = "TypeOK P_C12 P_C16 I_Ahead Dump"
    # C16 is about sizes and fragmentation: no write faults, no cuts; C12 is about faults
    maxwf, maxrf, marks, small = (2, 1, 2, 9) if family == "C12" else (0, 0, 2, 4)
    if tier == "thorough":
        maxwf, maxrf, marks, small = (2, 2, 3, 9) if family == "C12" else (0, 1, 3, 6)
    return ("SPECIFICATION Spec\nCONSTANTS\n  U = 32\n  Cfgs <- MCCfgs\n  Tier = \"%s\"\n  Family = \"%s\"\n"
            "  MaxWF = %d\n  MaxRF = %d\n  MaxMarks = %d\n  MaxSmall = %d\n" % (tier, family, maxwf, maxrf, marks, small)
            + "".join("  %s = %s\n" % (k, vlib.tla_bool(tg[k])) for k in TOGGLES)
            + "INVARIANTS " + inv + "\nCHECK_DEADLOCK FALSE\n")


MONITOR_CFG = ("SPECIFICATION Spec\nCONSTANTS\n  TraceFile = \"@TRACE@\"\n"
               "POSTCONDITION Consumed\nCHECK_DEADLOCK FALSE\n")


def run_family(family):
    def run(tier, scratch, drv, only_cases=None):
        tg = vlib.toggles()
        all_fixed = all(tg[k] for k in TOGGLES)
        res = {"engine": "tcp-stream", "toggles": {k: tg[k] for k in TOGGLES}}
        if only_cases is None:
            out, st = vlib.run_tlc("TcpStreamMC", model_cfg(tier, family, tg, all_fixed), scratch, workers=8,
                                   timeout=2400, heap="8g")
            if not st.get("ok"):
                raise vlib.Inconclusive("TLC did not complete on TcpStream:\n" + "\n".join(
                    l for l in out.splitlines() if not l.startswith('"CASE'))[-3000:])
            cases = vlib.extract_cases(out)
            res["model"] = {"states": st.get("distinct", 0), "transitions": st.get("generated", 0),
                            "depth": st.get("depth"), "wall_s": st["wall_s"], "invariants_checked": all_fixed}
        else:
            cases = only_cases
            res["model"] = {}
        if not cases:
            raise vlib.Inconclusive("no cases generated")
        if only_cases is None and family == "C12":
            # free runs over real sockets: envelopes of several KiB coalesced with small ones behind them
            # (what the decoder has read ahead belongs to the stream)
            extra = []
            for lens in ([160, 1, 1], [1, 160, 1, 1], [200, 200, 1], [1, 1, 300, 2, 1]):
                for mode in ("loop-accept", "loop-dial"):
                    extra.append({"mode": mode, "cfg": {"lens": lens, "U": 32, "L": 0, "faultfree": "y"},
                                  "plan": {"w": [], "r": [], "cut": 0}, "obs": []})
            for c in extra:
                c["n"] = len(cases) + 1
                cases.append(c)
            res["model"]["free_run_cases"] = len(extra)
        if only_cases is None and family == "C16":
            # free runs over real sockets through the constructors applications use (listener
            # Accept, DialTcp): one per distinct configuration plus long streams of small envelopes
            seen, extra = set(), []
            cfgs = [c["cfg"] for c in cases]
            for L in sorted({c["L"] for c in cfgs}):
                cfgs.append({"lens": [1] * 12, "U": 32, "L": L, "faultfree": "y"})
                cfgs.append({"lens": [2, 1, 2, 1, 2, 1, 2, 7, 1], "U": 32, "L": L, "faultfree": "y"})
            for L in sorted({c["L"] for c in cfgs}):
                # well-formed JSON that is no envelope in the middle of the stream: rejected, then business as usual
                for lens in ([2, 2], [3, 1], [1, 2, 2], [2, 1, 2]):
                    for pos in range(1, len(lens) + 1):
                        for jl in (1, 2):
                            cfgs.append({"lens": lens, "U": 32, "L": L, "faultfree": "y", "junk": pos, "junklen": jl})
            for cf in cfgs:
                key = (tuple(cf["lens"]), cf["L"], cf.get("junk", 0), cf.get("junklen", 0))
                if key in seen:
                    continue
                seen.add(key)
                for mode in ("loop-accept", "loop-dial"):
                    for trace in ("n", "y"):   # with and without a TraceWriter installed
                        extra.append({"mode": mode, "cfg": dict(cf, faultfree="y", trace=trace),
                                      "plan": {"w": [], "r": [], "cut": 0}, "obs": []})
            for c in extra:
                c["n"] = len(cases) + 1
                cases.append(c)
            res["model"]["free_run_cases"] = len(extra)
        cp = os.path.join(scratch, "tcp_cases_%s_%d.ndjson" % (family, len(cases)))
        with open(cp, "w") as f:
            for c in cases:
                f.write(json.dumps(c) + "\n")
        trace = cp.replace("cases", "trace")
        rp = cp.replace("cases", "res")
        _, wall = vlib.run_driver(drv, ["tcp", "-cases", cp, "-trace", trace, "-results", rp, "-workers", "16"])
        with open(rp) as f:
            summary = json.load(f)
        res["replay"] = {"cases": summary["cases"], "matched": summary["matched"], "wall_s": wall,
                         "notes": summary["notes"], "crashed": 0}
        bad, events, mwall = vlib.run_monitor("TcpObs", MONITOR_CFG, trace, scratch, shards=8)
        res["monitor"] = {"events": events, "wall_s": mwall, "bad": len(bad)}
        by_n = {c["n"]: c for c in cases}
        mism = {m["n"]: m for m in (summary.get("mismatches") or [])}
        res["bad"] = [{"n": n, "op": op, "cfg": by_n[n]["cfg"], "script": by_n[n]["plan"],
                       "expected": by_n[n]["obs"], "actual": mism[n]["actual"] if n in mism else None,
                       "case": by_n[n]} for (n, op) in bad if n in by_n]
        bad_ns = {n for (n, _) in bad}
        res["drift"] = [{"n": n, "cfg": m["cfg"], "note": m.get("note", "")} for n, m in mism.items()
                        if n not in bad_ns]
        res["samples"] = [{"cfg": c["cfg"], "plan": c["plan"]} for c in vlib.sample(cases, 3)]
        res["cases"] = cases
        return res
    return run


class _Fam:
    def __init__(self, family):
        self.run = run_family(family)
        self.__name__ = "engines.tcp_stream"


C12 = _Fam("C12")
C16 = _Fam("C16")
