"""Engine transport: Transport.tla (contract of a connected transport pair for the
in-process, TCP and WebSocket implementations; every operation sequence inside
the bound, invariant P_T) -> each sequence executed on a real pair, results
compared with the model's -> TransObs.tla monitor (TransProps operators)."""
import json
import os
import random

import vlib

MONITOR_CFG = ("SPECIFICATION Spec\nCONSTANTS\n  TraceFile = \"@TRACE@\"\n"
               "POSTCONDITION Consumed\nCHECK_DEADLOCK FALSE\n")


def attr_cases():
    out = []
    for url in ("ws", "wss"):
        for tlscfg in ("n", "y"):
            if url == "wss" and tlscfg == "n":
                continue   # cannot verify the test certificate
            enc = "tls" if url == "wss" else "none"
            obs = [{"op": "attr", "side": url, "res": "cli:%s,srv:%s" % (enc, enc), "v": 0}]
            for end in ("cli", "srv"):      # a websocket connection keeps the encryption it was opened with
                for e in ("none", "tls"):
                    obs.append({"op": "setenc", "side": url, "v": 0,
                                "res": "%s:%s:%s:%s" % (end, e, "ok" if e == enc else "err", enc)})
            out.append({"cfg": {"kind": "wsattr", "k": 0, "url": url, "tlscfg": tlscfg}, "obs": obs})
    out.append({"cfg": {"kind": "wsclose", "k": 0}, "obs": [{"op": "attr", "side": "wsclose", "res": "closed", "v": 0}]})
    return out


class Attr:
    """Only the dial-attribute cases (C09: both ends of a connection report the same encryption)."""
    __name__ = "engines.transport"

    @staticmethod
    def run(tier, scratch, drv, only_cases=None):
        cases = only_cases
        if cases is None:
            cases = attr_cases()
            for i, c in enumerate(cases):
                c["n"] = i + 1
        return run(tier, scratch, drv, only_cases=cases, model={"states": 1, "transitions": 1, "invariants_checked": True})


def run(tier, scratch, drv, only_cases=None, model=None):
    res = {"engine": "transport", "toggles": {}}
    if only_cases is None:
        depth = 4 if tier == "quick" else 5
        rng = random.Random(vlib.seed())
        cases, states, gen, wall = [], 0, 0, 0.0
        for kind, ks in (("inproc", (0, 1, 2)), ("tcp", (1,)), ("ws", (1,))):
            for k in ks:
                cfg = ("SPECIFICATION Spec\nCONSTANTS\n  Kind = \"%s\"\n  K = %d\n  MaxOps = %d\n"
                       "INVARIANTS TypeOK P_T Dump\nCHECK_DEADLOCK FALSE\n" % (kind, k, depth))
                out, st = vlib.run_tlc("TransportMC", cfg, scratch, workers=4, timeout=1200, heap="4g")
                if not st.get("ok"):
                    raise vlib.Inconclusive("TLC did not complete on Transport (%s):\n" % kind + "\n".join(
                        l for l in out.splitlines() if not l.startswith('"CASE'))[-3000:])
                cs = vlib.extract_cases(out)
                if tier == "quick" and kind != "inproc":   # sockets cost wall time: a seeded sample
                    cs = rng.sample(cs, min(len(cs), 1200))
                cases += cs
                states += st.get("distinct", 0)
                gen += st.get("generated", 0)
                wall += st["wall_s"]
        cases += attr_cases()
        for i, c in enumerate(cases):
            c["n"] = i + 1
        res["model"] = {"states": states, "transitions": gen, "wall_s": round(wall, 2), "invariants_checked": True}
    else:
        cases = only_cases
        res["model"] = model or {}
    if not cases:
        raise vlib.Inconclusive("no cases generated")
    cp = os.path.join(scratch, "trans_cases_%d.ndjson" % len(cases))
    with open(cp, "w") as f:
        for c in cases:
            f.write(json.dumps(c) + "\n")
    trace = cp.replace("cases", "trace")
    rp = cp.replace("cases", "res")
    _, wall = vlib.run_driver(drv, ["trans", "-cases", cp, "-trace", trace, "-results", rp, "-workers", "32"])
    with open(rp) as f:
        summary = json.load(f)
    if summary["notes"] > len(cases) // 4:
        raise vlib.Inconclusive("%d of %d cases could not be set up" % (summary["notes"], len(cases)))
    res["replay"] = {"cases": summary["cases"], "matched": summary["matched"], "wall_s": wall,
                     "notes": summary["notes"], "crashed": 0}
    bad, events, mwall = vlib.run_monitor("TransObs", MONITOR_CFG, trace, scratch, shards=8)
    res["monitor"] = {"events": events, "wall_s": mwall, "bad": len(bad)}
    by_n = {c["n"]: c for c in cases}
    mism = {m["n"]: m for m in (summary.get("mismatches") or [])}
    res["bad"] = [{"n": n, "op": op, "cfg": by_n[n]["cfg"], "script": [[e["op"], e["side"]] for e in by_n[n]["obs"]],
                   "expected": by_n[n]["obs"], "actual": mism[n]["actual"] if n in mism else None,
                   "case": by_n[n]} for (n, op) in bad if n in by_n]
    bad_ns = {n for (n, _) in bad}
    res["drift"] = [{"n": n, "cfg": m["cfg"], "note": m.get("note", "")} for n, m in mism.items() if n not in bad_ns]
    res["samples"] = [{"cfg": c["cfg"], "ops": [[e["op"], e["side"], e["res"]] for e in c["obs"]]} for c in vlib.sample(cases, 3)]
    res["cases"] = cases
    return res
