"""Engine server-life: ServerLife.tla checked exhaustively by TLC (every
placement of the three Close steps relative to start-up, accept, enqueue,
consume, handshakes and established sessions; select arms nondeterministic) ->
schedules drawn from the model by TLC simulation are forced onto a real Server
through gates at the verif hooks, one process per case -> SrvObs.tla."""
import json
import os

import vlib

TOGGLES = ["FixQueueClose", "FixServeReturn"]
MONITOR_CFG = ("SPECIFICATION Spec\nCONSTANTS\n  TraceFile = \"@TRACE@\"\n"
               "POSTCONDITION Consumed\nCHECK_DEADLOCK FALSE\n")


def model_cfg(tier, tg, check):
    return ("SPECIFICATION Spec\nCONSTANTS\n  CloseAfter <- MCCloseAfter\n  Lis <- MCLis\n  Conns <- MCConns\n  QCap = 1\n"
            "  Tier = \"%s\"\n" % ("check" if check else tier)
            + "".join("  %s = %s\n" % (k, vlib.tla_bool(tg[k])) for k in TOGGLES)
            + ("INVARIANTS TypeOK P_C18\nVIEW NoHist\n" if check else "INVARIANTS TypeOK Dump\n")
            + "CHECK_DEADLOCK FALSE\n")


def run(tier, scratch, drv, only_cases=None):
    tg = vlib.toggles()
    all_fixed = all(tg[k] for k in TOGGLES)
    res = {"engine": "server-life", "toggles": {k: tg[k] for k in TOGGLES}}
    if only_cases is None:
        res["model"] = {"states": 0, "transitions": 0, "invariants_checked": all_fixed}
        if all_fixed:
            out, st = vlib.run_tlc("ServerLifeMC", model_cfg(tier, tg, True), scratch, workers=8, timeout=2400, heap="8g")
            if not st.get("ok"):
                raise vlib.Inconclusive("TLC did not complete on ServerLife:\n" + out[-3000:])
            res["model"].update({"states": st.get("distinct", 0), "transitions": st.get("generated", 0),
                                 "depth": st.get("depth"), "wall_s": st["wall_s"]})
        num = 300 if tier == "quick" else 3000
        out, st = vlib.run_tlc("ServerLifeMC", model_cfg(tier, tg, False), scratch, workers=1, timeout=1200, heap="4g",
                               extra=["-simulate", "num=%d" % num, "-depth", "80", "-seed", str(vlib.seed())])
        seen, cases = set(), []
        for c in vlib.extract_cases(out):
            key = json.dumps(c["script"]) + json.dumps(c["cfg"], sort_keys=True)
            if key not in seen:
                seen.add(key)
                cases.append(c)
        for i, c in enumerate(cases):
            c["n"] = i + 1
        res["model"]["simulated_schedules"] = len(cases)
    else:
        cases = only_cases
        res["model"] = {}
    if not cases:
        raise vlib.Inconclusive("no schedules generated")
    cp = os.path.join(scratch, "srv_cases_%d.ndjson" % len(cases))
    with open(cp, "w") as f:
        for c in cases:
            f.write(json.dumps(c) + "\n")
    trace = cp.replace("cases", "trace")
    rp = cp.replace("cases", "res")
    _, wall = vlib.run_driver(drv, ["srvlife", "-cases", cp, "-trace", trace, "-results", rp, "-workers", "16"])
    with open(rp) as f:
        summary = json.load(f)
    recs = {r["n"]: r for r in summary["records"]}
    noend = [r["n"] for r in summary["records"] if "no-end" in (r.get("note") or "") or "timeout" in (r.get("note") or "")]
    if len(noend) > len(cases) // 4:
        raise vlib.Inconclusive("the schedule driver did not finish %d of %d cases" % (len(noend), len(cases)))
    res["replay"] = {"cases": summary["cases"], "matched": summary["cases"] - len(noend), "wall_s": wall,
                     "notes": summary["notes"], "crashed": summary["crashed"]}
    bad, events, mwall = vlib.run_monitor("SrvObs", MONITOR_CFG, trace, scratch, shards=8)
    res["monitor"] = {"events": events, "wall_s": mwall, "bad": len(bad)}
    by_n = {c["n"]: c for c in cases}
    res["bad"] = [{"n": n, "op": op, "cfg": by_n[n]["cfg"], "script": by_n[n]["script"],
                   "expected": by_n[n]["obs"], "actual": recs[n]["actual"] if n in recs else None,
                   "case": by_n[n]} for (n, op) in bad if n in by_n and n not in noend]
    res["drift"] = [{"n": n, "cfg": by_n[n]["cfg"], "note": "schedule driver did not reach the end"} for n in noend]
    res["samples"] = [{"outcome": c["cfg"].get("outcome"), "script": c["script"]} for c in vlib.sample(cases, 3)]
    res["cases"] = cases
    return res
