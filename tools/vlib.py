"""Shared machinery of the /verif checks: scratch dirs, TLC runner, driver
build, trace monitor runner, evidence and verdict output."""
import hashlib
import json
import os
import random
import re
import shutil
import subprocess
import sys
import tempfile
import time
from concurrent.futures import ThreadPoolExecutor

VERIF = os.path.dirname(os.path.dirname(os.path.abspath(__file__)))
SPEC = os.path.join(VERIF, "spec")
HARNESS = os.path.join(VERIF, "harness")
EVIDENCE = os.path.join(VERIF, "evidence")
REPLAYS = os.path.join(VERIF, "replays")
REPO = "/repo"
# development aid only (seed testing in parallel): build against another checkout. The registered
# commands never set it, so they always rebuild from /repo's working tree.
ALT_REPO = os.environ.get("VERIF_ALT_REPO")
if ALT_REPO:   # nothing such a run produces is evidence about /repo
    EVIDENCE = os.path.join(ALT_REPO, ".verif-alt", "evidence")
    REPLAYS = os.path.join(ALT_REPO, ".verif-alt", "replays")
    os.makedirs(EVIDENCE, exist_ok=True)
TLA_CP = "/opt/veriftools/tla/tla2tools.jar:/opt/veriftools/tla/CommunityModules-deps.jar"

GOENV = dict(os.environ, GOFLAGS="-mod=mod", GOPROXY="off", GOSUMDB="off", GOTOOLCHAIN="local",
             CGO_ENABLED="0")


class Inconclusive(Exception):
    """Machinery failure: exit 2, never a violation."""


def seed():
    try:
        return int(os.environ.get("VERIF_SEED", "1"))
    except ValueError:
        return 1


class Scratch:
    def __init__(self, tag):
        self.path = tempfile.mkdtemp(prefix="verif-%s-" % tag)

    def __enter__(self):
        return self.path

    def __exit__(self, *a):
        if os.environ.get("VERIF_KEEP"):
            print("scratch kept:", self.path)
        else:
            shutil.rmtree(self.path, ignore_errors=True)


def toggles():
    with open(os.path.join(VERIF, "toggles.json")) as f:
        return json.load(f)


def tla_bool(b):
    return "TRUE" if b else "FALSE"


def build_driver(scratch):
    """Build the harness driver with -tags verif against /repo's working tree."""
    out = os.path.join(scratch, "verifdrv")
    gosum = os.path.join(HARNESS, "go.sum")
    if not os.path.exists(gosum):
        shutil.copy(os.path.join(REPO, "go.sum"), gosum)
    cmd = ["go", "build", "-tags", "verif", "-o", out, "./cmd/verifdrv"]
    if ALT_REPO:
        mf = os.path.join(scratch, "alt.mod")
        with open(os.path.join(HARNESS, "go.mod")) as f:
            txt = f.read().replace("=> /repo", "=> " + ALT_REPO)
        with open(mf, "w") as f:
            f.write(txt)
        shutil.copy(gosum, os.path.join(scratch, "alt.sum"))
        cmd.insert(2, "-modfile=" + mf)
    p = subprocess.run(cmd, cwd=HARNESS, env=GOENV, capture_output=True, text=True)
    if p.returncode != 0:
        raise Inconclusive("driver build failed:\n" + p.stdout + p.stderr)
    return out


def run_tlc(module, cfg_text, scratch, workers=8, timeout=900, heap="4g", extra=(), name=None,
            extra_files=()):
    """Run TLC on spec/<module>.tla with the given cfg text inside scratch.
    Returns (stdout, stats)."""
    d = tempfile.mkdtemp(prefix="tlc-", dir=scratch)
    for f in os.listdir(SPEC):
        if f.endswith(".tla"):
            shutil.copy(os.path.join(SPEC, f), d)
    for f in extra_files:
        shutil.copy(f, d)
    cfgname = (name or module) + ".cfg"
    with open(os.path.join(d, cfgname), "w") as f:
        f.write(cfg_text)
    cmd = ["java", "-XX:+UseParallelGC", "-XX:ParallelGCThreads=4", "-Xmx" + heap, "-Xss64m",
           "-Djava.io.tmpdir=" + d, "-cp", TLA_CP, "tlc2.TLC", "-workers", str(workers),
           "-metadir", os.path.join(d, "meta"), "-config", cfgname] + list(extra) + [module + ".tla"]
    t0 = time.time()
    try:
        p = subprocess.run(cmd, cwd=d, capture_output=True, text=True, timeout=timeout)
    except subprocess.TimeoutExpired:
        subprocess.run(["pkill", "-f", "tlc2.TL[C].*" + d])
        raise Inconclusive("TLC timeout on %s" % module)
    out = p.stdout
    stats = {"wall_s": round(time.time() - t0, 2), "rc": p.returncode}
    m = re.search(r"(\d[\d,]*) states generated, (\d[\d,]*) distinct states found", out)
    if m:
        stats["generated"] = int(m.group(1).replace(",", ""))
        stats["distinct"] = int(m.group(2).replace(",", ""))
    m = re.search(r"depth of the complete state graph search is (\d+)", out)
    if m:
        stats["depth"] = int(m.group(1))
    stats["ok"] = "Model checking completed. No error has been found." in out
    stats["dir"] = d
    return out, stats


def tlc_errors(out):
    return [l for l in out.splitlines() if l.startswith("Error:")]


def extract_cases(out):
    cases = []
    for line in out.splitlines():
        if line.startswith('"CASE '):
            s = json.loads(line)
            c = json.loads(s[5:])
            c["n"] = len(cases) + 1
            cases.append(c)
    return cases


def run_driver(drv, args, timeout=1800):
    t0 = time.time()
    try:
        p = subprocess.run([drv] + args, capture_output=True, text=True, timeout=timeout)
    except subprocess.TimeoutExpired:
        raise Inconclusive("driver timeout: %s" % " ".join(args[:1]))
    if p.returncode != 0:
        raise Inconclusive("driver failed (rc=%d): %s\n%s" % (p.returncode, p.stdout[-2000:], p.stderr[-4000:]))
    return p.stdout, round(time.time() - t0, 2)


def run_hs_batch(drv, cases, scratch, tag, workers=32):
    """Replay handshake cases with the hs-server driver command in isolated
    child processes (one case at a time per child): a panic on a library
    goroutine takes the child down and is charged to the case it was
    replaying, which gets a synthetic history with a `panic` event.
    Returns (trace_path, summary)."""
    t0 = time.time()
    cp = os.path.join(scratch, tag + "_cases.ndjson")
    with open(cp, "w") as f:
        for c in cases:
            f.write(json.dumps(c) + "\n")
    tp = os.path.join(scratch, tag + "_trace.ndjson")
    rp = os.path.join(scratch, tag + "_res.json")
    run_driver(drv, ["hs-server", "-isolate", "-cases", cp, "-trace", tp, "-results", rp,
                     "-workers", str(workers)])
    with open(rp) as f:
        summ = json.load(f)
    summ["mismatches"] = summ.get("mismatches") or []
    summ["wall_s"] = round(time.time() - t0, 2)
    return tp, summ


def split_trace(trace_path, scratch, shards, is_start):
    """Split an ndjson trace at case boundaries into at most `shards` files."""
    with open(trace_path) as f:
        lines = f.readlines()
    starts = [i for i, l in enumerate(lines) if is_start(l)]
    if not starts:
        return [], 0
    ncase = len(starts)
    shards = max(1, min(shards, ncase))
    per = (ncase + shards - 1) // shards
    files = []
    for s in range(shards):
        a = s * per
        if a >= ncase:
            break
        b = min(ncase, a + per)
        lo = starts[a]
        hi = starts[b] if b < ncase else len(lines)
        path = os.path.join(scratch, "shard%d.ndjson" % s)
        with open(path, "w") as f:
            f.writelines(lines[lo:hi])
        files.append((path, hi - lo))
    return files, len(lines)


BAD_RE = re.compile(r'<<"BAD", (-?\d+), "([A-Za-z0-9_]+)">>')


def run_monitor(module, cfg_template, trace_path, scratch, shards=8, timeout=900,
                is_start=lambda l: l.startswith('{"k":"cfg"')):
    """Validate a recorded trace with a TLC monitor module. Returns
    (bad: list of (case, operator), events_consumed, wall_s)."""
    files, total = split_trace(trace_path, scratch, shards, is_start)
    if not files:
        return [], 0, 0.0
    t0 = time.time()

    def one(item):
        path, n = item
        cfg = cfg_template.replace("@TRACE@", os.path.basename(path))
        out, st = run_tlc(module, cfg, scratch, workers=1, timeout=timeout, heap="3g",
                          extra_files=[path])
        if not st.get("ok"):
            raise Inconclusive("monitor %s did not accept %s:\n%s" % (module, path, out[-3000:]))
        if st.get("distinct") != n + 1:
            raise Inconclusive("monitor %s consumed %s of %d events" % (module, st.get("distinct"), n))
        return [(int(a), b) for a, b in BAD_RE.findall(out)]

    bad = []
    with ThreadPoolExecutor(max_workers=len(files)) as ex:
        for r in ex.map(one, files):
            bad.extend(r)
    return bad, total, round(time.time() - t0, 2)


def write_evidence(pid, tier, coverage, wall_s, violations, assumptions, level="model_checking"):
    os.makedirs(EVIDENCE, exist_ok=True)
    ev = {"property_id": pid, "tier": tier, "seed": seed(), "level": level,
          "coverage": coverage, "assumptions": assumptions, "wall_s": round(wall_s, 2),
          "violations": violations}
    with open(os.path.join(EVIDENCE, pid + ".json"), "w") as f:
        json.dump(ev, f, indent=1)


def known_findings():
    p = os.path.join(VERIF, "known_findings.json")
    if not os.path.exists(p):
        return []
    with open(p) as f:
        return json.load(f).get("findings", [])


def write_replay(pid, payload):
    os.makedirs(REPLAYS, exist_ok=True)
    h = hashlib.sha1(json.dumps(payload, sort_keys=True).encode()).hexdigest()[:12]
    path = os.path.join(REPLAYS, "%s-%s.json" % (pid, h))
    with open(path, "w") as f:
        json.dump(payload, f, indent=1)
    return path


def compact(e):
    return {k: v for k, v in e.items() if v != ""}


def sample(items, k, rng=None):
    rng = rng or random.Random(seed())
    if len(items) <= k:
        return list(items)
    return rng.sample(items, k)
