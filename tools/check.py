#!/usr/bin/env python3
"""./check setup | ./check <Cxx> [quick|thorough] | ./check --replay <path>"""
import json
import os
import subprocess
import sys
import time

sys.path.insert(0, os.path.dirname(os.path.abspath(__file__)))
import vlib
from engines import hs_server, hs_client, tcp_stream, codec, pending, srvlife, mux, chan, clientlife, blocking, transport, listener

# property -> list of (engine module, operator prefixes that decide it)
PROPS = {
    "C03": [(hs_server, ["C03_", "X_NoPanic"])],
    "C07": [(hs_server, ["C07_", "X_NoPanic"])],
    "C09": [(hs_server, ["C09_"]), (hs_client, ["C09_"]), (transport.Attr, ["C09_Transport"])],
    "C10": [(hs_server, ["C10_"])],
    "C14": [(hs_server, ["C14_"]), (srvlife, ["C18_CallbacksExact"]), (transport, ["C14_Transport"])],
    "C06": [(hs_server, ["C06_"]), (hs_client, ["C06_"]), (chan.C06, ["C06_"])],
    "C08": [(hs_client, ["C08_"]), (clientlife, ["C08_Client"])],
    "C01": [(codec.C01, ["C01_", "X_Harness"])],
    "C02": [(codec.C02, ["C02_", "X_Harness"]), (clientlife, ["C02_SrvSurvives", "C08_ClientNoPanic"]),
            (hs_server, ["X_NoPanic"])],
    "C11": [(codec.C11, ["C11_", "X_Harness"]), (clientlife, ["C11_PingReply"])],
    "C04": [(chan.C04, ["C04_", "C13_NoCrash"]), (transport, ["C04_Transport"]),
            (tcp_stream.C12, ["C12_WireClean", "C12_StreamIntegrity", "C12_NoSilentLoss", "C12_NoPanic"]),
            (clientlife, ["C04_SrvOwnHandler"])],
    "C05": [(pending, ["C05_"])],
    "C13": [(chan.C13, ["C13_"]), (transport, ["C13_Transport"]), (clientlife, ["C13_Client"])],
    "C12": [(tcp_stream.C12, ["C12_"])],
    "C17": [(chan.C17, ["C17_", "C13_NoCrash"]), (clientlife, ["C17_SrvPingIsolated"])],
    "C18": [(srvlife, ["C18_"]), (listener, ["C18_Listener"])],
    "C19": [(clientlife, ["C19_"])],
    "C20": [(mux, ["C20_"])],
    "C16": [(tcp_stream.C16, ["C16_"])],
    "C15": [(blocking, ["C15_"])],
}

ASSUME = {
    "listener": [
        "TLC enumerates every sequence of up to 4 (thorough: 6; in-process 5) operations listen / dial / accept / close on one listener of each kind; each is executed on a real listener and compared step by step (in-process cases one after the other: the library's listener registry is a plain map)",
        "a Close that has not returned after 0.7 s (in-process 0.12 s) is recorded as hanging; 8 ms for the loopback network to settle, 80 ms accept deadlines",
        "TLC, CommunityModules Json, the Go runtime, net/http and gorilla/websocket are trusted",
    ],
    "transport": [
        "TLC enumerates every sequence of up to 4 (thorough: 5) operations send / receive / close / connected on either end of a pair, for the in-process transport with capacities 0, 1, 2 and for TCP and WebSocket (quick tier: a seeded sample of 1200 socket sequences each), and checks the contract operators on the model",
        "operations are executed one at a time with 10 ms for the loopback network to settle and 70 ms deadlines; sequences that close a socket end with unread input are not generated (open finding F-C13-7)",
        "TLC, CommunityModules Json, the Go runtime and gorilla/websocket are trusted",
    ],
    "blocking": [
        "TLC checks the wait automaton of every operation x transport x deadline/cancel x moment against the bound the property states; each case is then timed on the real operation against a peer that makes no progress (silent, or not reading with full buffers)",
        "latencies are wall-clock: a slack of 1 s absorbs scheduling noise (the violations at stake are whole poll intervals or hangs); a call not back 4 s after its bound is recorded as hanging; encoding time of a large envelope is kept out of the measure by ending the context after the writer is parked",
        "TLC, CommunityModules Json, the Go runtime, crypto/tls and gorilla/websocket are trusted",
    ],
    "client-life": [
        "TLC checks ClientLife exhaustively (8 fault kinds, up to 2-4 faults) including the liveness property Recovers under weak fairness of the listener's steps",
        "the scripted server accepts throughout the 3 s observation window (reachable server); a listener is said to spin above 1000 iterations per second; TCP and TLS-upgraded TCP transports with a 4 KiB read limit, WebSocket without",
        "TLC, CommunityModules Json and the Go runtime are trusted",
    ],
    "channel": [
        "TLC checks the Channel model exhaustively for 2 senders x 2 envelopes, stream buffer 1-2, wire capacity 2, with FinishSession at any moment; schedules of the real sessions are sampled (seeded perturbed free runs), not enumerated",
        "delivery is owed only for envelopes reported as sent before the barrier / before the end of the session was requested; TCP receivers notice a cancellation at their next 5 s poll, so closure is observed with 7 s bounds",
        "TLC, CommunityModules Json, the Go runtime, crypto/tls and gorilla/websocket are trusted",
    ],
    "mux": [
        "TLC enumerates every table of up to 2 (thorough: 3) handlers for one kind over 5 predicate shapes x ok/err, with catch-all handlers for the other kinds, and every inbound sequence of up to 2 (thorough: 3) envelopes over 2 classes and 2 kinds, in both roles",
        "unbuffered channel streams make the dispatch order equal to the arrival order, so each case is deterministic; a handler error is given 40 ms to finish the session before the client asks itself",
        "TLC, CommunityModules Json and the Go runtime are trusted",
    ],
    "server-life": [
        "TLC checks the model exhaustively for 1 listener, 2 connections, queue capacity 1 (thorough: 2 listeners); the schedules replayed on the real Server are drawn from the model by seeded TLC simulation, so the real-code side samples the schedule space",
        "gates sit at verif hooks outside critical sections; which arm a Go select takes when several are ready cannot be forced, so a schedule is followed as far as the real goroutines allow and the verdict comes from the monitor on what really happened",
        "in-process listeners (no 5 s read polls); TLC, CommunityModules Json and the Go runtime are trusted",
    ],
    "pending": [
        "TLC explores every interleaving of the lock regions for the stated instance (2-3 callers, two sharing an id, 2 responses incl. unknown ids, one cancellable caller); schedules in which both arms of the select are ready are left to the free runs",
        "the gates sit between the lock regions (outside the locks), so a forced schedule is an execution the Go scheduler could produce by itself",
        "TLC, CommunityModules Json and the Go runtime are trusted",
    ],
    "codec": [
        "TLC enumerates the abstract domain of Codec.tla completely (field presence, document nesting, enum members, deviations, text forms over a 4-symbol alphabet); string payloads come from a seeded pool and are sampled, not enumerated",
        "equality of envelopes is judged by an independent field-by-field projection, not by the library's own marshalling",
        "TLC, CommunityModules Json, the Go runtime, encoding/json and gorilla/websocket are trusted",
    ],
    "tcp-stream": [
        "TLC results hold inside the stated constants (envelope sizes, read limits, MaxWF/MaxRF fault budgets, MaxMarks fragmentation points per read of TcpStreamMC.tla)",
        "the connection under the transport returns only results a net.Conn may legally return; read limit below 512 bytes so that the decoder's request equals its budget",
        "TLC, CommunityModules Json, the Go runtime and encoding/json are trusted",
    ],
    "hs-client": [
        "TLC results hold inside the stated constants (raw-server alphabet of HsClient.tla, MaxIn, selector choices)",
        "selector and authenticator callbacks return normally",
        "TLC, CommunityModules Json, the Go runtime, crypto/tls and encoding/json are trusted",
    ],
    "hs-server": [
        "TLC results hold inside the stated constants (raw-client alphabet of HsServer.tla, MaxRT, configuration lattice of HsServerMC.tla)",
        "callbacks return normally and honour their contract (never (nil, nil))",
        "TLC, CommunityModules Json, the Go runtime, crypto/tls and encoding/json are trusted",
    ],
}


def finding_matches(f, pid, b):
    if f.get("status") != "open" or f.get("property") != pid:
        return False
    m = f.get("match", {})
    if m.get("op") and m["op"] != b["op"]:
        return False
    for k, v in m.get("cfg", {}).items():
        if b["cfg"].get(k) != v:
            return False
    for k, vs in m.get("cfg_in", {}).items():
        if b["cfg"].get(k) not in vs:
            return False
    if "script" in m and m["script"] != b["script"]:
        return False
    return True


def check(pid, tier):
    t0 = time.time()
    with vlib.Scratch(pid) as scratch:
        drv = vlib.build_driver(scratch)
        known, fresh, drift, assume, transient = [], [], [], [], []
        cov = {"states": 0, "transitions": 0, "traces_validated_against_impl": 0, "samples": [],
               "exhaustive": True, "engines": [], "monitor_events": 0, "replay_equal_to_model_prediction": 0,
               "deciding_operators": [], "checker_cmd": "./check %s %s" % (pid, tier)}
        kf = vlib.known_findings()
        for eng, prefixes in PROPS[pid]:
            res = eng.run(tier, scratch, drv)
            mine = [b for b in res["bad"] if any(b["op"].startswith(p) for p in prefixes)]
            # what an open, listed finding explains is reported as such (schedule-dependent findings need not
            # show up twice in a row); any other violation counts only if it reproduces on a second execution
            listed = [b for b in mine if any(finding_matches(f, pid, b) for f in kf)]
            mine = [b for b in mine if b not in listed]
            for b in listed:
                b["engine"] = res["engine"]
                known.append((b, [f for f in kf if finding_matches(f, pid, b)][0]))
            confirmed = []
            if mine:
                # a violation counts only if the same case shows it again when executed on its own, with the
                # machine to itself (two further executions at most); what shows once and never again is
                # reported as TRANSIENT and does not raise an alarm
                ns = sorted({b["n"] for b in mine})[:200]
                subset = []
                seen_n = set()
                for b in mine:
                    if b["n"] in ns and b["n"] not in seen_n:
                        seen_n.add(b["n"])
                        subset.append(b["case"])
                still = set()
                for attempt in range(2):
                    again = eng.run(tier, scratch, drv, only_cases=subset)
                    still |= {(b["n"], b["op"]) for b in again["bad"]}
                    if still:
                        break
                confirmed = [b for b in mine if (b["n"], b["op"]) in still]
                if not confirmed:
                    transient += [(res["engine"], b["n"], b["op"], b["cfg"]) for b in mine][:5]
            for b in confirmed:
                b["engine"] = res["engine"]
                hit = [f for f in kf if finding_matches(f, pid, b)]
                (known if hit else fresh).append((b, hit[0] if hit else None))
            drift += [dict(d, engine=res["engine"]) for d in res.get("drift", [])]
            model = res.get("model", {})
            cov["states"] += model.get("states", 0)
            cov["transitions"] += model.get("transitions", 0)
            cov["traces_validated_against_impl"] += res["replay"]["cases"]
            cov["replay_equal_to_model_prediction"] += res["replay"]["matched"]
            cov["monitor_events"] += res["monitor"]["events"]
            cov["samples"] += res["samples"][:2]
            cov["deciding_operators"] += [res["engine"] + ":" + p for p in prefixes]
            cov["engines"].append({"engine": res["engine"], "model": {k: v for k, v in model.items()},
                                   "replay": res["replay"], "monitor": res["monitor"],
                                   "toggles": res.get("toggles")})
            assume += [a for a in ASSUME[res["engine"]] if a not in assume]
        cov["states"] = max(1, cov["states"])
        cov["transitions"] = max(1, cov["transitions"])
        cov["drift_cases"] = len(drift)
        cov["known_findings_hit"] = len(known)
        cov["transient_observations"] = len(transient)
        vlib.write_evidence(pid, tier, cov, time.time() - t0, len(fresh), assume)
        for eng_name, n, op, cfg in transient:
            print("TRANSIENT property=%s engine=%s case=%s operator=%s cfg=%s (seen once, not in two further executions of the case)" % (
                pid, eng_name, n, op, json.dumps(cfg)))
        for d in drift[:10]:
            print("DRIFT property=%s engine=%s case=%s cfg=%s %s" % (pid, d["engine"], d["n"], json.dumps(d["cfg"]), d.get("note", "")))
        for f in kf:
            if f.get("status") == "open" and f.get("property") == pid:
                hits = sum(1 for _, g in known if g["id"] == f["id"])
                print("KNOWN-FINDING: property=%s %s [%s; met %d time(s) in this run]" % (pid, f["what"], f["id"], hits))
        if fresh:
            shown = set()
            for b, _ in fresh:
                key = (b["engine"], b["op"])
                if key in shown:
                    continue
                shown.add(key)
                path = vlib.write_replay(pid, {"property": pid, "engine": b["engine"], "operator": b["op"],
                                               "cfg": b["cfg"], "case": b["case"], "actual": b["actual"]})
                print("VIOLATION property=%s replay=%s" % (pid, path))
                print("  operator=%s cfg=%s (%d violating cases in total)" % (
                    b["op"], json.dumps(b["cfg"]), sum(1 for x, _ in fresh if x["op"] == b["op"])))
            return 1
        print("OK property=%s tier=%s cases=%d matched=%d drift=%d model_states=%s wall=%.1fs" % (
            pid, tier, cov["traces_validated_against_impl"], cov["replay_equal_to_model_prediction"], len(drift),
            cov["states"], time.time() - t0))
        return 0


def replay(path):
    with open(path) as f:
        rp = json.load(f)
    pid = rp["property"]
    module = {"channel": "chan", "server-life": "srvlife", "client-life": "clientlife"}.get(
        rp["engine"], rp["engine"].replace("-", "_"))
    eng, prefixes = [(e, p) for e, p in PROPS[pid] if e.__name__.endswith("." + module)][0]
    with vlib.Scratch("replay") as scratch:
        drv = vlib.build_driver(scratch)
        res = eng.run("quick", scratch, drv, only_cases=[rp["case"]])
        bad = [b for b in res["bad"] if any(b["op"].startswith(p) for p in prefixes)]
        for b in bad:
            print("VIOLATION property=%s replay=%s" % (pid, path))
            print("  operator=%s" % b["op"])
            for e in (b["actual"] or b["expected"]):
                print("   ", json.dumps(e))
        return 1 if bad else 0


def setup():
    p = subprocess.run(["go", "build", "-tags", "verif", "-o", os.devnull, "./cmd/verifdrv"],
                       cwd=vlib.HARNESS, env=vlib.GOENV, capture_output=True, text=True)
    if p.returncode != 0:
        print(p.stdout + p.stderr)
        return 2
    with vlib.Scratch("setup") as scratch:
        for m in sorted(f[:-4] for f in os.listdir(vlib.SPEC) if f.endswith(".tla")):
            d = os.path.join(scratch, "sany")
            os.makedirs(d, exist_ok=True)
            q = subprocess.run(["java", "-Djava.io.tmpdir=" + d, "-cp", vlib.TLA_CP, "tla2sany.SANY", m + ".tla"],
                               cwd=vlib.SPEC, capture_output=True, text=True)
            if q.returncode != 0 or "error" in q.stdout.lower().replace("0 error", ""):
                if "Semantic errors" in q.stdout or "Parse Error" in q.stdout or q.returncode != 0:
                    print("SANY failed on", m, q.stdout[-2000:])
                    return 2
    print("setup ok")
    return 0


def main():
    a = sys.argv[1:]
    if not a:
        print(__doc__)
        return 2
    try:
        if a[0] == "setup":
            return setup()
        if a[0] == "--replay":
            return replay(a[1])
        pid = a[0]
        tier = a[1] if len(a) > 1 else os.environ.get("VERIF_TIER", "quick")
        if pid not in PROPS:
            print("unknown property", pid)
            return 2
        return check(pid, tier)
    except vlib.Inconclusive as e:
        print("INCONCLUSIVE:", e)
        return 2


if __name__ == "__main__":
    sys.exit(main())
