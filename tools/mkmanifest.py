#!/usr/bin/env python3
"""Regenerates /verif/MANIFEST.json from the table below."""
import json, os, subprocess
V = os.path.dirname(os.path.dirname(os.path.abspath(__file__)))
props = [json.loads(l) for l in open(os.path.join(V, "properties.jsonl"))]
hooks = subprocess.run(["git", "-C", "/repo", "log", "--format=%h %s"], capture_output=True, text=True).stdout.splitlines()
hook_commits = [l.split()[0] for l in hooks if l.split(" ", 1)[1].startswith("verif:")]

HS_NOTE = ("Assumes callbacks honour their contract and return normally; TLC result holds inside the constants of "
           "HsServerMC.tla (raw-client alphabet, MaxRT, configuration lattice); transfer to the code rests on every "
           "generated behaviour being replayed on the real ServerChannel / Server and on the HsObs monitor over the "
           "recorded histories; trusted: TLC, CommunityModules Json, Go runtime, crypto/tls, encoding/json.")

CLAIMED = {
 "C03": dict(engine="hs-server", tech="TLA+ model HsServer.tla checked by TLC; every generated behaviour replayed on the real ServerChannel/Server; recorded histories validated by the TLC monitor HsObs (operator C03_EstablishedSoundness)",
   text="Exhaustive TLC exploration of the server handshake model against a raw client alphabet (all scripts, callback outcomes, configurations inside the bounds), every maximal behaviour replayed on the real code and its recorded history checked by TLC against the same TLA+ operator. Exhaustive on the implementation inside the bounds, which is the right level for a never-property over all input scripts.", ref="DESIGN.md 3.1, 5 (C03)", note=HS_NOTE),
 "C06": dict(engine="hs-server", tech="TLA+ model HsServer.tla (send probes after every step, data injected at every script position) + replay + TLC monitor HsObs (C06_SendGuard, C06_RecvGuard)",
   text="Every send operation is called on the real channel at every quiescent stage of every generated handshake behaviour and data envelopes are injected at every script position; TLC evaluates the guard operators on each recorded history.", ref="DESIGN.md 5 (C06)", note=HS_NOTE + " Server role only so far; the client role is covered once HsClient lands."),
 "C07": dict(engine="hs-server", tech="TLA+ model HsServer.tla checked by TLC; replay of every behaviour; TLC monitor HsObs (C07_EmitOrder, C07_OneIdOneSender, C07_Monotone, C07_NothingAfterFailed, C07_FailClosed)",
   text="Every trace of the reference model is replayed against the implementation and compared event for event; order, id, sender and fail-closed operators are evaluated by TLC on the recorded history.", ref="DESIGN.md 5 (C07)", note=HS_NOTE),
 "C09": dict(engine="hs-server", tech="TLA+ model HsServer.tla + replay with real TLS upgrade + TLC monitor HsObs (C09_OfferExact, C09_ConfirmSound, C09_UpgradeBeforeAuth)",
   text="All configured/supported option pairs and all client selections are enumerated by TLC; the raw peer tags every envelope clear/tls on the real connection.", ref="DESIGN.md 5 (C09)", note=HS_NOTE + " Server role against a scripted client so far."),
 "C10": dict(engine="hs-server", tech="TLA+ model HsServer.tla + replay + TLC monitor HsObs (C10_NoCleartextAuth)",
   text="The configuration lattice contains exactly the deciding cases (TLS-only list on a TLS-capable TCP transport); every client behaviour inside the bounds is replayed and the wire encryption of each envelope and callback is checked by TLC.", ref="DESIGN.md 5 (C10)", note=HS_NOTE),
 "C14": dict(engine="hs-server", tech="TLA+ model HsServer.tla (Server flavour: handleChannel epilogue) + replay against a real Server on loopback TCP + TLC monitor HsObs (C14_Released)",
   text="Every non-establishing terminal behaviour of the handshake model is replayed against a real Server; closure within a bound, callbacks and goroutine census are checked.", ref="DESIGN.md 5 (C14)", note=HS_NOTE + " TCP listener only so far; release is asserted within a 1.5 s bound with the collector disabled."),
   "C08": dict(engine="hs-client", tech="TLA+ model HsClient.tla checked by TLC; every generated server script replayed on the real ClientChannel in crash-isolating child processes; TLC monitor HsObs (C08_NoPanic, C08_Returns, C08_Truthful, C08_EchoId, C08_CredsOnlyOnRequest, C08_ClosesOnTerminal)",
   text="Exhaustive TLC exploration of the client handshake model against a raw server alphabet (all seven states incl. regressions, id variants, option/confirmation/scheme variants, round-trip data, data, garbage, disconnect) to a depth bound; every maximal behaviour is replayed on the real ClientChannel over the real TCP transport and its history checked by TLC against the same operators.", ref="DESIGN.md 3.1, 5 (C08)",
   note="Assumes selector/authenticator callbacks return normally; TLC result holds inside MaxIn and the raw-server alphabet of HsClient.tla; a panic on a library goroutine is observed as the death of the replaying child process; trusted: TLC, CommunityModules Json, Go runtime, crypto/tls, encoding/json."),
}
TCP_NOTE = ("TLC result holds inside the constants of TcpStreamMC.tla (unit 32 bytes, envelope sizes, read limits of 3 units +-1 byte, fault budgets, fragmentation points per read); "
            "every generated plan is executed on the real tcpTransport over scripted connections that log every Read/Write call; cleartext only so far (TLS layer on top of the scripted connection is planned); "
            "trusted: TLC, CommunityModules Json, Go runtime, encoding/json.")
CLAIMED["C12"] = dict(engine="tcp-stream", tech="TLA+ model TcpStream.tla (write/read loops of ctxConn, decoder read-ahead) checked by TLC over all fault plans; every plan replayed on the real TCP transport over scripted net.Conn; TLC monitor TcpObs (C12_StreamIntegrity, C12_NoSilentLoss, C12_WireClean)",
   text="TLC enumerates every split of the stream into reads, coalescing, short write of every unit length with temporary timeout or hard error, (n>0,timeout)/(n>0,EOF) reads, stalls and cuts for small streams; each plan is executed on the real transport and the recorded Send/Receive results and accepted byte ranges are checked by TLC against the same operators.", ref="DESIGN.md 3.4, 5 (C12)", note=TCP_NOTE)
CLAIMED["C16"] = dict(engine="tcp-stream", tech="TLA+ model TcpStream.tla (LimitedReader budget re-arm, decoder read-ahead, terminator accounting) checked by TLC; every size/fragmentation plan replayed on the real transport with ReadLimit set; TLC monitor TcpObs (C16_PerReceiveBudget, C16_RejectHuge, C16_AcceptSmall)",
   text="All envelope sizes around the limit (below, at +-1 byte, between one and two limits, two limits, above) at first and later stream positions under every fragmentation inside the bounds; bytes consumed per Receive are measured at the scripted connection.", ref="DESIGN.md 3.4, 5 (C16)", note=TCP_NOTE)
CODEC_NOTE = ("TLC enumerates the abstract domain of Codec.tla completely inside its bounds; string payloads (escapes, unicode, surrogate pairs, separators) come from a seeded pool and are sampled; "
              "equality is judged by an independent field-by-field projection of the Go values; trusted: TLC, CommunityModules Json, Go runtime, encoding/json, gorilla/websocket.")
CLAIMED["C01"] = dict(engine="codec", tech="TLA+ model Codec.tla (wire keys, kind discrimination list, document nesting, text grammars) enumerated by TLC; every abstract envelope is built for real and round-tripped through the typed decoders, the TCP receive path and a real WebSocket pair; TLC monitor CodecObs (C01_KindPreserved, C01_Equal, C01_TextRoundTrip)",
   text="Every combination of optional header fields over one body per kind and every body (document kinds nested to depth 3-4, all enum members, option lists, authentication schemes) over representative headers is enumerated by TLC, built as a real envelope and decoded three ways; text forms of nodes/identities/media types are enumerated over a 4-symbol alphabet and the real String/Parse functions are compared with the TLA+ transcription of the grammar.", ref="DESIGN.md 3.7, 5 (C01)", note=CODEC_NOTE)
CLAIMED["C02"] = dict(engine="codec", tech="TLA+ model Codec.tla of the decode outcome (ok / err / panic) of wire trees with deviations; TLC enumerates every single (thorough: double) structural deviation at every path; each mutant is rendered to JSON and fed to all typed decoders and the TCP receive path; TLC monitor CodecObs (C02_NoPanic, C02_Stable)",
   text="Structural mutant space (delete, null, each wrong JSON type, at every field path incl. nested documents) generated from the specification and executed on the real decoders; accepted input is re-encoded and decoded again.", ref="DESIGN.md 3.7, 5 (C02)", note=CODEC_NOTE + " Raw byte-level coverage-guided fuzzing, truncation and concatenation are not part of this check.")
CLAIMED["C11"] = dict(engine="codec", tech="TLA+ model Codec.tla of the reply builders (Sender rule, correlation, resource type); TLC enumerates all from/pp/to presence combinations x methods x builders x resource kinds; real builders are called and their result encoded and decoded through the TCP receive path; TLC monitor CodecObs (C11_Addressed, C11_Correlated, C11_WireOk)",
   text="Finite product of builder inputs enumerated completely; each reply is checked field by field and must survive the wire.", ref="DESIGN.md 3.7, 5 (C11)", note=CODEC_NOTE + " The live ping auto-reply is exercised by the server engines.")
CLAIMED["C05"] = dict(engine="pending", tech="TLA+ model Pending.tla (lock regions of processCommand / trySubmitCommandResult) checked by TLC over every interleaving of a small instance; each generated interleaving is forced onto the real goroutines through gates at verif hooks between the lock regions; probe schedules from the finer-grained model and perturbed free runs with an adversarial responder; TLC monitor PendObs (C05_OwnIdOnly, C05_AtMostOnce, C05_DupRejected, C05_Completes, C05_UnknownToStream, C05_TableEmpty)",
   text="Exhaustive over the interleavings of the model for 2 callers sharing an id (thorough: 3 callers, 3 response ids) with cancellation; every such schedule is executed on the real channel (forced through gates, so the real code is driven through the 7-8 step races no stress test hits) and the recorded history is checked by TLC; free runs sample larger workloads.", ref="DESIGN.md 3.3, 5 (C05)",
   note="Gates sit outside the locks, so a forced schedule is an execution the Go scheduler could produce; schedules with both select arms ready are left to the free runs; TLC result holds for the stated instance sizes; trusted: TLC, CommunityModules Json, Go runtime.")
CLAIMED["C18"] = dict(engine="server-life", tech="TLA+ model ServerLife.tla (acceptors, consumer, session goroutines, the three steps of Close, select arms incl. the panicking ones) checked exhaustively by TLC; schedules drawn from the model by seeded TLC simulation are forced onto a real Server through gates at verif hooks, one child process per case; TLC monitor SrvObs (C18_NoPanic, C18_ServeReturnsClosed, C18_CallbacksExact, C18_AllFinished, C18_NoLeak)",
   text="Every placement of the Close steps relative to start-up, accept, enqueue, consume, handshake outcomes and established sessions is checked on the model; about 300 (thorough: 3000) of those schedules are driven through a real Server with real clients, process death = panic, goroutine census at the end.", ref="DESIGN.md 3.5, 5 (C18)",
   note="Model exhaustive for 1 listener / 2 connections / queue capacity 1; real-code side samples schedules (seeded); a Go select's arm cannot be forced, so verdicts come from the monitor on what really happened; in-process listeners in the quick tier; trusted: TLC, CommunityModules Json, Go runtime.")
CLAIMED["C20"] = dict(engine="mux", tech="TLA+ model Mux.tla (first-match scan per kind, error stops the loop) enumerated by TLC over every handler table x inbound sequence inside the bounds; one real dispatch per model transition on a real EnvelopeMux over a real TCP session (real Server / ListenClient); TLC monitor MuxObs (C20_FirstMatch, C20_ErrorStops, C20_Continues)",
   text="All tables of up to 2 (thorough 3) handlers per kind over 5 predicate shapes and ok/err outcomes, all inbound sequences of up to 2 (thorough 3) envelopes, both roles: about 10^4 cases, each executed for real; handlers log which of them ran and with what envelope.", ref="DESIGN.md 3.7, 5 (C20)",
   note="Unbuffered channel streams make dispatch order equal to arrival order; events are listed in that causal order; a handler error is given 40 ms to finish the session; trusted: TLC, CommunityModules Json, Go runtime.")
CHAN_NOTE = ("Channel.tla is checked exhaustively by TLC for 2 senders x 2 envelopes, stream buffer 1-2, wire capacity 2, FinishSession at any moment; the real sessions run as seeded perturbed free runs (one process per run) over in-process, TCP, TCP+TLS, WebSocket and secure WebSocket, so schedules on the real code are sampled; "
             "closure is observed with 7 s bounds because TCP receivers poll every 5 s; trusted: TLC, CommunityModules Json, Go runtime, crypto/tls, gorilla/websocket.")
CLAIMED["C04"] = dict(engine="channel", tech="TLA+ model Channel.tla (senders, send mutex, wire, receiver, bounded streams, consumer) checked by TLC; perturbed free runs of real sessions over the five transports with concurrent senders in both directions, mixed kinds, 60 KiB payloads, buffers 0/1/8 and slow handlers; every recorded history validated by the TLC monitor ChanObs (C04_NoFabrication, C04_AtMostOnce, C04_PerSenderOrder, C04_AllDelivered, C04_Intact)",
   text="Every interleaving of the model instance is checked by TLC; on the real code each run's complete send/deliver history is checked by TLC against the same operators.", ref="DESIGN.md 3.2, 5 (C04)", note=CHAN_NOTE)
CLAIMED["C13"] = dict(engine="channel", tech="TLA+ model Channel.tla (FinishSession steps racing with senders and the receiver; invariant WriterExclusion) checked by TLC; perturbed free runs over the five transports ending the session by client finish / server finish / server fail / Server.Close, idle or during traffic; TLC monitor ChanObs (C13_CleanEnd, C13_PeerObserves, C13_InitiatorObserves, C13_NoLeak, C13_NoCrash)",
   text="The model is checked for every moment of termination relative to traffic in flight; real sessions are ended at seeded moments and what both parties observe (terminal state, receiver-done, streams, consumers, connection, goroutine census, process survival) is checked by TLC.", ref="DESIGN.md 3.2, 5 (C13)", note=CHAN_NOTE)
CLAIMED["C17"] = dict(engine="channel", tech="TLA+ model Iso.tla (per-connection channels, session context built from the channel that owns the connection, sender = that channel, fresh session ids, arbitrary registered nodes) checked by TLC; free runs of 3-12 concurrent real sessions on one Server listening on TCP, WebSocket and in-process at once, registration assigning equal addresses to several sessions; TLC monitor ChanObs (C17_Isolated)",
   text="All interleavings of three sessions' traffic are checked on the model; on the real Server every handler invocation's context values are compared with what that client's session announced, and every reply sent through the handler's sender is followed to the client that receives it.", ref="DESIGN.md 3.5, 5 (C17)", note=CHAN_NOTE)
CLAIMED["C19"] = dict(engine="client-life", tech="TLA+ model ClientLife.tla (cached channel, getOrBuildChannel reuse rule, listener loop, effect of each fault on state / connected / receiver) checked by TLC incl. the liveness property Recovers under fairness and the invariant NoSpin; a real Client against a scripted raw server for every fault kind x moment; TLC monitor CliObs (C19_Recovers, C19_NoSpin, C19_SendTruth, C19_Closes)",
   text="Eight fault kinds (server finish, server fail, abrupt close, connection reset, half close, undecodable bytes, non-envelope JSON, oversized envelope) x three transports (TCP, TCP upgraded to TLS, WebSocket) x three moments (idle, during user sends, repeated on the re-established session) are each executed on the real Client; sessions opened at the server, handler deliveries on the new session and the iteration rate of the listener loop (verif hook) are recorded and checked by TLC.", ref="DESIGN.md 3.6, 5 (C19)",
   note="TCP and TLS-upgraded TCP transports with a 4 KiB read limit, WebSocket without (no oversized case there); the scripted server accepts throughout a 3 s window; spin threshold 1000 iterations/s; SendTruth is claimed for sends on a healthy session (before the fault, after recovery); trusted: TLC, CommunityModules Json, Go runtime.")
CLAIMED["C15"] = dict(engine="blocking", tech="TLA+ model Blocking.tla (wait automaton per operation x transport: select / 5 s connection-deadline poll / wait for the polling receiver / TLS handshake / no wake-up; invariant Bounded against the delay the property states) checked by TLC; every model case timed on the real operation (transport Send/Receive/Accept, the four channel send operations, ProcessCommand, client and server EstablishSession, client FinishSession, server FinishSession / FailSession, each on TCP, WebSocket and in-process, plus the TLS upgrade on TCP) against a peer that makes no progress; TLC monitor BlockObs (C15_Bounded, C15_ReturnsError)",
   text="All operation x transport x deadline/cancel x moment combinations of the model are executed for real (thorough: three times each); the measured latency between the end of the context and the return of the call is checked by TLC against the property's bound.", ref="DESIGN.md 3.7, 5 (C15), 10.3",
   note="Wall-clock measurement with 1 s slack; peers: silent (reads), not reading with full socket buffers / stalled consumer (writes); a call not back 4 s after its bound counts as hanging; trusted: TLC, CommunityModules Json, Go runtime, crypto/tls, gorilla/websocket.")
CLAIMED["C04"]["engine"] = "channel+transport"
CLAIMED["C04"]["tech"] += "; plus TLA+ model Transport.tla (contract of a transport pair: FIFO, no loss before the close is reported) enumerated by TLC, every operation sequence executed on real in-process / TCP / WebSocket pairs, TLC monitor TransObs (C04_TransportOrder, C04_TransportNoLoss)"
CLAIMED["C13"]["engine"] = "channel+transport"
CLAIMED["C13"]["tech"] += "; plus Transport.tla sequences on real pairs, TLC monitor TransObs (C13_TransportClosed: an end that closed refuses to send and receive and reports itself as not connected)"
CLAIMED["C04"]["engine"] = "channel+transport+tcp-stream+client-life"
CLAIMED["C04"]["tech"] += "; the TCP byte-path engine (TcpStream.tla, C12 operators on scripted connections) as a fourth view of 'intact, in order'; a builder-made Server with the ping auto-reply and a request handler of its own driven by a raw client (C04_SrvOwnHandler: a request that is not a ping reaches the application's handler exactly once)"
CLAIMED["C02"]["engine"] = "codec+client-life"
CLAIMED["C02"]["tech"] += "; a builder-made Server and Client fed a request without uri in processes of their own (C02_SrvSurvives, C08_ClientNoPanic)"
CLAIMED["C11"]["engine"] = "codec+client-life"
CLAIMED["C11"]["tech"] += "; the built-in ping auto-reply of a builder-made Client and of a builder-made Server, observed on the wire by a scripted peer (C11_PingReply)"
CLAIMED["C14"]["engine"] = "hs-server+server-life+transport"
CLAIMED["C17"]["engine"] = "channel+client-life"
CLAIMED["C17"]["tech"] += "; the server also asks its clients and checks the session context of the response-command handler; a gateway session listened on with a context that descends from another session's handler; three sessions pinging a builder-made server at once (CliObs C17_SrvPingIsolated)"
CLAIMED["C18"]["engine"] = "server-life+listener"
CLAIMED["C18"]["tech"] += "; plus TLA+ model Listener.tla (listen / dial / accept / close on one listener of each kind, every sequence inside the bound) executed on real listeners, TLC monitor LisObs (C18_ListenerStops: a closed listener takes no dial and hands out no connection; C18_ListenerReleases: a connection that had not finished its websocket upgrade is closed with the listener), plus a Server over two listeners whose first one fails to close / whose second one cannot bind"
CLAIMED["C08"]["engine"] = "hs-client+client-life"
CLAIMED["C08"]["tech"] += "; at the level of the Client facade: Client.Establish against a scripted server whose first connection is answered with another state, TLC monitor CliObs (C08_ClientTruthful)"
CLAIMED["C09"]["tech"] += "; websocket dial attributes (ws / wss, with and without a TLS configuration): both ends must report the encryption of the URL scheme, TLC monitor TransObs (C09_TransportEncryption); each end of those connections asked to apply each encryption: success only with the encryption in force afterwards, refusal otherwise (C09_TransportSetEncApplied)"
CLAIMED["C13"]["engine"] = "channel+transport+client-life"
CLAIMED["C13"]["tech"] += "; at the Client facade every connection the client ever made must be seen released by the scripted server (garbage collector off), TLC monitor CliObs (C13_ClientReleases)"
CLAIMED["C14"]["tech"] += "; variants of refused handshakes in which the client resets the connection after its last symbol (server side observed through a hook); the callbacks half of the property also on ServerLife.tla schedules forced on a real Server (outcomes failed / gone / err / stall), TLC monitor SrvObs (C18_CallbacksExact)"
CLAIMED["C06"]["engine"] = "hs-server+hs-client+channel"
CLAIMED["C06"]["note"] = HS_NOTE + " Both roles: server role on HsServer behaviours, client role on HsClient behaviours. Established phase: free runs of real sessions (channel engine), sampled schedules."
CLAIMED["C06"]["tech"] += " and HsClient.tla + C06_ClientSendGuard for the client role; for the end of the established phase Channel.tla (invariant NoDataAfterFinished) checked by TLC and real sessions ended idle / during traffic over five transports with a wire tap on the terminating server and send attempts by both sides afterwards, TLC monitor ChanObs (C06_QuietAfterEnd, C06_NoSendAfterEnd)"
CLAIMED["C03"]["tech"] += "; a second, wide-open ServerBuilder server is built in the same process after the server under test, so configuration shared between builders shows as an establishment under a scheme that was not configured"
CLAIMED["C09"]["engine"] = "hs-server+hs-client"
CLAIMED["C09"]["note"] = HS_NOTE + " Library server against scripted client and library client against scripted server."
CLAIMED["C09"]["tech"] += " and HsClient.tla + C09_ClientUpgrade for the client role"

checks = []
for p in props:
    pid = p["id"]
    if pid not in CLAIMED:
        continue
    c = CLAIMED[pid]
    checks.append({
        "property_id": pid,
        "quick_cmd": "./check %s quick" % pid,
        "thorough_cmd": "./check %s thorough" % pid,
        "evidence_file": "/verif/evidence/%s.json" % pid,
        "replay_cmd_template": "./check --replay {path}",
        "engine": c["engine"],
        "level_claimed": {"category": "model_checking", "text": c["text"], "design_ref": c["ref"]},
        "level_note": c["note"],
        "technique": c["tech"],
    })
na = [{"property_id": p["id"], "reason": "check not built yet (work in progress); its TLA+ engine is planned in DESIGN.md section 5"}
      for p in props if p["id"] not in CLAIMED]
m = {
 "version": 1,
 "setup_cmd": "./check setup",
 "hooks": {"guard": "verif", "enable": "go build -tags verif (harness module /verif/harness replaces github.com/takenet/lime-go => /repo)",
           "baseline_off_cmd": "cd /repo && GOFLAGS=-mod=mod GOPROXY=off GOSUMDB=off GOTOOLCHAIN=local go test -json -vet=off -count=1 -timeout 25m ./...",
           "source_commits": hook_commits, "add_only": True},
 "engines": [
   {"name": "listener", "path": "spec/Listener.tla spec/ListenerMC.tla spec/LisObs.tla harness/transd/lisd.go tools/engines/listener.py",
    "serves_properties": ["C18"],
    "kind_free_text": "TLA+ contract of a transport listener (in-process, TCP, WebSocket) with every bounded operation sequence enumerated by TLC, each executed on a real listener and compared step by step, TLC trace monitor"},
   {"name": "transport", "path": "spec/Transport.tla spec/TransportMC.tla spec/TransProps.tla spec/TransObs.tla harness/transd tools/engines/transport.py",
    "serves_properties": ["C04", "C09", "C13", "C14"],
    "kind_free_text": "TLA+ contract of a connected transport pair (in-process, TCP, WebSocket) with every bounded operation sequence enumerated by TLC, each executed on a real pair and compared step by step, TLC trace monitor"},
   {"name": "blocking", "path": "spec/Blocking.tla spec/BlockingMC.tla spec/BlockObs.tla harness/blockd tools/engines/blocking.py",
    "serves_properties": ["C15"],
    "kind_free_text": "TLA+ wait automata of the context-taking operations checked by TLC against the stated bound, each case timed on the real operation, TLC trace monitor"},
   {"name": "client-life", "path": "spec/ClientLife.tla spec/CliObs.tla harness/clid tools/engines/clientlife.py",
    "serves_properties": ["C19", "C08", "C13", "C11", "C04", "C02", "C17"],
    "kind_free_text": "TLA+ model of the Client's channel cache and listener loop with safety and liveness checked by TLC, fault injection against a real Client, TLC trace monitor"},
   {"name": "channel", "path": "spec/Channel.tla spec/ChannelMC.tla spec/Iso.tla spec/IsoMC.tla spec/ChanProps.tla spec/ChanObs.tla harness/chand tools/engines/chan.py",
    "serves_properties": ["C04", "C06", "C13", "C17"],
    "kind_free_text": "TLA+ model of the established data path and teardown, exhaustive TLC check, perturbed free runs of real sessions over five transports (process per run), TLC trace monitor"},
   {"name": "mux", "path": "spec/Mux.tla spec/MuxMC.tla spec/MuxProps.tla spec/MuxObs.tla harness/muxd tools/engines/mux.py",
    "serves_properties": ["C20"],
    "kind_free_text": "TLA+ model of the dispatcher, exhaustive TLC enumeration of tables and inbound sequences, one real dispatch per case, TLC trace monitor"},
   {"name": "server-life", "path": "spec/ServerLife.tla spec/ServerLifeMC.tla spec/SrvProps.tla spec/SrvObs.tla harness/srvlife tools/engines/srvlife.py",
    "serves_properties": ["C18", "C14"],
    "kind_free_text": "TLA+ model of Server start/serve/stop, exhaustive TLC check, simulated schedules forced on a real Server via hook gates (process per case), TLC trace monitor"},
   {"name": "pending", "path": "spec/Pending.tla spec/PendingMC.tla spec/PendingProps.tla spec/PendObs.tla harness/pend tools/engines/pending.py",
    "serves_properties": ["C05"],
    "kind_free_text": "TLA+ model of the pending-command table at lock-region granularity, TLC over all interleavings, forced-schedule replay on real goroutines through hook gates, perturbed free runs, TLC trace monitor"},
   {"name": "codec", "path": "spec/Codec.tla spec/CodecMC.tla spec/CodecObs.tla harness/codec tools/engines/codec.py",
    "serves_properties": ["C01", "C02", "C11"],
    "kind_free_text": "TLA+ model of the codec (wire keys, classification, decode outcome of deviating wire trees, reply builders, text grammars), TLC enumeration of the bounded domain, execution on the real codec, TLC monitor"},
   {"name": "tcp-stream", "path": "spec/TcpStream.tla spec/TcpStreamMC.tla spec/TcpProps.tla spec/TcpObs.tla harness/tcps tools/engines/tcp_stream.py",
    "serves_properties": ["C12", "C16", "C04"],
    "kind_free_text": "TLA+ model of the TCP byte path + TLC exhaustive check and plan generation, replay on the real tcpTransport over scripted connections, TLC trace monitor"},
   {"name": "hs-client", "path": "spec/HsClient.tla spec/HsClientMC.tla spec/HsProps.tla spec/HsObs.tla harness/hs/client.go tools/engines/hs_client.py",
    "serves_properties": ["C08", "C06", "C09"],
    "kind_free_text": "TLA+ model + TLC exhaustive check and behaviour generation, replay on the real ClientChannel in crash-isolating child processes, TLC trace monitor"},
   {"name": "hs-server", "path": "spec/HsServer.tla spec/HsServerMC.tla spec/HsProps.tla spec/HsObs.tla harness/hs tools/engines/hs_server.py",
    "serves_properties": ["C03", "C06", "C07", "C09", "C10", "C14"],
    "kind_free_text": "TLA+ model + TLC exhaustive check and behaviour generation, replay on real ServerChannel/Server, TLC trace monitor"},
 ],
 "checks": checks,
 "notes": "All verdicts come from real-code behaviour validated by TLC against TLA+ operators; DRIFT lines (model/code mismatch with the property monitor satisfied) are informational, exit 0.",
 "not_applicable": na,
}
json.dump(m, open(os.path.join(V, "MANIFEST.json"), "w"), indent=1)
print("claimed:", [c["property_id"] for c in checks])
