#!/usr/bin/env python3
"""Confirm a seeded change and run checks against it.
usage: seedtest.py <seed_dir> <seed_id> [check ids...]
 seed_dir has patch.diff, demo_test.go, meta.json. Steps:
  1. scratch worktree of /repo HEAD: demo passes on clean tree; patch applies; build ok (both tags);
     existing suite passes; demo fails with the patch.
  2. apply the patch to /repo, run ./check <id> quick for each id, undo.
 Result is stored in /verif/seeded/<seed_id>/ (patch, demo, meta with what was run)."""
import json, os, shutil, subprocess, sys, tempfile, time
V = os.path.dirname(os.path.dirname(os.path.abspath(__file__)))
ENV = dict(os.environ, GOFLAGS="-mod=mod", GOPROXY="off", GOSUMDB="off", GOTOOLCHAIN="local")

def sh(cmd, cwd=None, timeout=900):
    p = subprocess.run(cmd, shell=True, cwd=cwd, env=ENV, capture_output=True, text=True, timeout=timeout)
    return p.returncode, (p.stdout + p.stderr)

def main():
    alt = "--alt" in sys.argv   # run the checks against the scratch worktree (VERIF_ALT_REPO) instead of /repo
    argv = [a for a in sys.argv if a != "--alt"]
    seed_dir, seed_id = argv[1], argv[2]
    checks = argv[3:]
    meta = json.load(open(os.path.join(seed_dir, "meta.json")))
    patch = os.path.join(seed_dir, "patch.diff")
    demo = os.path.join(seed_dir, "demo_test.go")
    wt = tempfile.mkdtemp(prefix="seedwt-")
    os.rmdir(wt)
    ran = []
    ok = True
    results = {}
    try:
        rc, out = sh("git -C /repo worktree add -q --detach %s HEAD" % wt)
        assert rc == 0, out
        shutil.copy(demo, os.path.join(wt, "zz_seed_demo_test.go"))
        # network namespace: the repo tests use fixed ports
        ns = "unshare -n sh -c 'ip link set lo up 2>/dev/null; %s'"
        rc, out = sh(ns % "go test -vet=off -count=1 -run TestSeedDemo .", cwd=wt)
        ran.append(("clean tree: demo", rc))
        if rc != 0:
            ok = False; print("demo fails on clean tree:\n", out[-1500:])
        rc, out = sh("git apply %s" % patch, cwd=wt)
        ran.append(("patch applies", rc))
        if rc != 0:
            ok = False; print("patch does not apply:\n", out[-1500:])
        else:
            rc, out = sh("go build ./... && go build -tags verif ./...", cwd=wt)
            ran.append(("builds (both tags)", rc)); ok &= rc == 0
            os.remove(os.path.join(wt, "zz_seed_demo_test.go"))
            rc, out = sh(ns % "go test -vet=off -count=1 ./...", cwd=wt)
            if rc != 0:
                rc, out = sh(ns % "go test -vet=off -count=1 ./...", cwd=wt)
            ran.append(("patched: existing suite", rc))
            if rc != 0:
                ok = False; print("suite fails with patch:\n", out[-1500:])
            shutil.copy(demo, os.path.join(wt, "zz_seed_demo_test.go"))
            rc, out = sh(ns % "go test -vet=off -count=1 -run TestSeedDemo .", cwd=wt)
            ran.append(("patched: demo (must fail)", rc))
            if rc == 0:
                ok = False; print("demo passes with patch")
        if ok and alt:
            os.remove(os.path.join(wt, "zz_seed_demo_test.go"))
            results = {}
            for cid in checks:
                t0 = time.time()
                rc, out = sh("VERIF_ALT_REPO=%s ./check %s quick" % (wt, cid), cwd=V, timeout=3600)
                lines = [l for l in out.splitlines() if l.startswith(("VIOLATION", "OK ", "INCONCLUSIVE", "KNOWN", "  operator"))]
                results[cid] = {"rc": rc, "lines": lines[:6], "wall_s": round(time.time() - t0, 1), "alt_repo": True}
                print(cid, rc, lines[:4])
    finally:
        sh("git -C /repo worktree remove --force %s" % wt)
    print("confirmed" if ok else "NOT CONFIRMED", seed_id, ran)
    if ok and not alt:
        rc, out = sh("git -C /repo status --porcelain")
        assert out.strip() == "", "repo not clean: " + out
        rc, out = sh("git -C /repo apply %s" % patch)
        assert rc == 0, out
        try:
            for cid in checks:
                t0 = time.time()
                rc, out = sh("./check %s quick" % cid, cwd=V, timeout=3600)
                lines = [l for l in out.splitlines() if l.startswith(("VIOLATION", "OK ", "INCONCLUSIVE", "KNOWN", "  operator"))]
                results[cid] = {"rc": rc, "lines": lines[:6], "wall_s": round(time.time() - t0, 1)}
                print(cid, rc, lines[:4])
        finally:
            sh("git -C /repo checkout -- .")
            sh("rm -rf /verif/replays")
    dst = os.path.join(V, "seeded", seed_id)
    if ok:
        os.makedirs(dst, exist_ok=True)
        shutil.copy(patch, os.path.join(dst, "patch.diff"))
        shutil.copy(demo, os.path.join(dst, "demo_test.go"))
        meta.update({"confirmed": ran, "checks": results,
                     "detected_by": sorted(c for c, r in results.items() if r["rc"] == 1),
                     "repo_head": subprocess.run("git -C /repo rev-parse --short HEAD", shell=True, capture_output=True, text=True).stdout.strip()})
        json.dump(meta, open(os.path.join(dst, "meta.json"), "w"), indent=1)

main()
