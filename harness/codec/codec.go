// Package codec replays the cases generated from Codec.tla against the real
// envelope codec: round trips (C01), structural mutants (C02), reply builders
// (C11) and the text forms of nodes / media types (C01).
package codec

import (
	"context"
	"encoding/json"
	"fmt"
	"reflect"
	"strings"
	"time"

	lime "github.com/takenet/lime-go"
	"github.com/takenet/lime-go/chat"
	"verif/harness/pipe"
)

func init() { chat.RegisterChatDocuments() }

// ---- case records as printed by TLC ----------------------------------------

type Hdr struct {
	ID   string `json:"id"`
	Frm  string `json:"frm"`
	PP   string `json:"pp"`
	To   string `json:"to"`
	Meta string `json:"meta"`
}
type Doc struct {
	Spec []string `json:"spec"`
	N    int      `json:"n"`
}
type Body struct {
	Kind   string `json:"kind"`
	Doc    Doc    `json:"doc"`
	Event  string `json:"event"`
	Reason string `json:"reason"`
	Method string `json:"method"`
	URI    string `json:"uri"`
	Status string `json:"status"`
	State  string `json:"state"`
	Eopts  string `json:"eopts"`
	Copts  string `json:"copts"`
	Sopts  string `json:"sopts"`
	Enc    string `json:"enc"`
	Comp   string `json:"comp"`
	Auth   string `json:"auth"`
	Scheme string `json:"scheme"`
}
type Env struct {
	H Hdr  `json:"h"`
	B Body `json:"b"`
}
type Dev struct {
	Path  []string `json:"path"`
	Shape string   `json:"shape"`
}
type ReplyCase struct {
	ID      string `json:"id"`
	Frm     string `json:"frm"`
	PP      string `json:"pp"`
	To      string `json:"to"`
	Method  string `json:"method"`
	Builder string `json:"builder"`
	Doc     Doc    `json:"doc"`
	Reason  string `json:"reason"`
	Reqres  string `json:"reqres"`
}
type TextCase struct {
	Form string   `json:"form"`
	A    string   `json:"a"`
	B    string   `json:"b"`
	C    string   `json:"c"`
	Str  string   `json:"str"`
	Back []string `json:"back"`
	Wf   bool     `json:"wf"`
}
type Case struct {
	N    int             `json:"n"`
	Fam  string          `json:"fam"`
	E    *Env            `json:"e,omitempty"`
	Dev  []Dev           `json:"dev,omitempty"`
	C    json.RawMessage `json:"c,omitempty"`
	Pred json.RawMessage `json:"pred,omitempty"`
}

// Event is the uniform record of the Codec monitor (CodecObs.tla: C0).
type Event struct {
	K       string `json:"k"`
	Way     string `json:"way"`
	Kind    string `json:"kind"`
	Kind2   string `json:"kind2"`
	Equal   string `json:"equal"`
	Outcome string `json:"outcome"`
	Stable  string `json:"stable"`
	Pred    string `json:"pred"`
	To      string `json:"to"`
	Frm     string `json:"frm"`
	IDok    string `json:"idok"`
	Method  string `json:"method"`
	Status  string `json:"status"`
	Reason  string `json:"reason"`
	Res     string `json:"res"`
	Rtype   string `json:"rtype"`
	Wire    string `json:"wire"`
	Expto   string `json:"expto"`
	Expfrm  string `json:"expfrm"`
	Wf      string `json:"wf"`
	Rt      string `json:"rt"`
	Strok   string `json:"strok"`
	Backok  string `json:"backok"`
	Detail  string `json:"detail"`
}

type Result struct {
	N      int     `json:"n"`
	Fam    string  `json:"fam"`
	Match  bool    `json:"match"`
	Actual []Event `json:"actual"`
	Note   string  `json:"note,omitempty"`
}

// ---- concretisation ---------------------------------------------------------

var pool = []string{
	"plain", "with space", "quote\"back\\slash", "line\nbreak\ttab", "unicode-éß中", "emoji-\U0001F600-pair",
	"<html>&amp;", " sep", "ctrl-\u0001", "slash/at@plus+",
}

type gen struct{ seed, i int }

func (g *gen) str() string {
	g.i++
	return pool[(g.seed+g.i*7)%len(pool)]
}

func node(form, who string) lime.Node {
	switch form {
	case "full":
		return lime.Node{Identity: lime.Identity{Name: who, Domain: "example.com"}, Instance: "home"}
	case "ident":
		return lime.Node{Identity: lime.Identity{Name: who, Domain: "example.com"}}
	case "name":
		return lime.Node{Identity: lime.Identity{Name: who}}
	case "dom": // an address without a name part
		return lime.Node{Identity: lime.Identity{Domain: "example.com"}, Instance: "home"}
	}
	return lime.Node{}
}

func (g *gen) header(h Hdr) lime.Envelope {
	e := lime.Envelope{From: node(h.Frm, "alice"), PP: node(h.PP, "bob"), To: node(h.To, "carol")}
	if h.ID != "" {
		e.ID = "id-" + g.str()
	}
	if h.Meta != "" {
		e.Metadata = map[string]string{"k1": g.str(), "#k2": "v2"}
	}
	return e
}

// doc builds the document named by spec and the media type that labels it.
func (g *gen) doc(spec []string, n int) (lime.Document, lime.MediaType) {
	switch spec[0] {
	case "text":
		d := lime.TextDocument(g.str())
		return d, d.MediaType()
	case "utext":
		return lime.TextDocument(g.str()), lime.MediaType{Type: "image", Subtype: "x-unKnown.Kind"}
	case "json":
		d := &lime.JsonDocument{"a": 1.5, "b": g.str(), "c": []interface{}{1.0, "two", nil}, "d": map[string]interface{}{"e": true}}
		return d, d.MediaType()
	case "ujson":
		d := &lime.JsonDocument{"custom": g.str()}
		return d, lime.MediaType{Type: "application", Subtype: "vnd.Seed.chatState", Suffix: "json"}
	case "ping":
		d := &lime.Ping{}
		return d, d.MediaType()
	case "chat":
		p := 3
		d := &chat.Presence{Status: chat.PresenceStatusAvailable, Message: g.str(), Priority: &p, Instances: []string{"i1", "i2"}}
		return d, d.MediaType()
	case "cont":
		inner, t := g.doc(spec[1:], n)
		d := &lime.DocumentContainer{Type: t, Value: inner}
		return d, d.MediaType()
	case "coll":
		var items []lime.Document
		var it lime.MediaType
		if n >= 0 {
			items = []lime.Document{}
		}
		_, it = g.doc(spec[1:], n)
		for i := 0; i < n; i++ {
			d, _ := g.doc(spec[1:], n)
			items = append(items, d)
		}
		d := &lime.DocumentCollection{Total: n + 3, ItemType: it, Items: items}
		return d, d.MediaType()
	}
	panic("unknown doc spec " + strings.Join(spec, ":"))
}

func encList(s string) []lime.SessionEncryption {
	var out []lime.SessionEncryption
	for _, x := range strings.Split(s, ",") {
		if x != "" {
			out = append(out, lime.SessionEncryption(x))
		}
	}
	return out
}
func compList(s string) []lime.SessionCompression {
	var out []lime.SessionCompression
	for _, x := range strings.Split(s, ",") {
		if x != "" {
			out = append(out, lime.SessionCompression(x))
		}
	}
	return out
}
func schList(s string) []lime.AuthenticationScheme {
	var out []lime.AuthenticationScheme
	for _, x := range strings.Split(s, ",") {
		if x != "" {
			out = append(out, lime.AuthenticationScheme(x))
		}
	}
	return out
}

// build makes the real envelope for an abstract one.
func (g *gen) build(e Env) interface{} {
	h := g.header(e.H)
	b := e.B
	var reason *lime.Reason
	if b.Reason != "" {
		reason = &lime.Reason{Code: 42, Description: g.str()}
	}
	switch b.Kind {
	case "msg":
		d, t := g.doc(b.Doc.Spec, b.Doc.N)
		return &lime.Message{Envelope: h, Type: t, Content: d}
	case "not":
		return &lime.Notification{Envelope: h, Event: lime.NotificationEvent(b.Event), Reason: reason}
	case "req", "resp":
		cmd := lime.Command{Envelope: h, Method: lime.CommandMethod(b.Method)}
		if len(b.Doc.Spec) > 0 {
			d, t := g.doc(b.Doc.Spec, b.Doc.N)
			cmd.Resource, cmd.Type = d, &t
		}
		if b.Kind == "req" {
			u := "/presence/sub?x=1"
			if b.URI == "abs" {
				u = "lime://alice@example.com/presence"
			}
			uri, err := lime.ParseLimeURI(u)
			if err != nil {
				panic(err)
			}
			return &lime.RequestCommand{Command: cmd, URI: uri}
		}
		return &lime.ResponseCommand{Command: cmd, Status: lime.CommandStatus(b.Status), Reason: reason}
	case "ses":
		s := &lime.Session{Envelope: h, State: lime.SessionState(b.State), Reason: reason,
			EncryptionOptions: encList(b.Eopts), CompressionOptions: compList(b.Copts), SchemeOptions: schList(b.Sopts),
			Encryption: lime.SessionEncryption(b.Enc), Compression: lime.SessionCompression(b.Comp),
			Scheme: lime.AuthenticationScheme(b.Scheme)}
		switch b.Auth {
		case "guest":
			s.Authentication = &lime.GuestAuthentication{}
		case "plain":
			a := &lime.PlainAuthentication{}
			a.SetPasswordAsBase64(g.str())
			s.Authentication = a
		case "key":
			a := &lime.KeyAuthentication{}
			a.SetKeyAsBase64(g.str())
			s.Authentication = a
		case "transport":
			s.Authentication = &lime.TransportAuthentication{}
		case "external":
			s.Authentication = &lime.ExternalAuthentication{Token: g.str(), Issuer: "issuer.example"}
		}
		return s
	}
	panic("unknown kind " + b.Kind)
}

// ---- an independent projection of envelope values ----------------------------

func absNode(n lime.Node) interface{}    { return [3]string{n.Name, n.Domain, n.Instance} }
func absMT(m lime.MediaType) interface{} { return [3]string{m.Type, m.Subtype, m.Suffix} }

func absDoc(d lime.Document) interface{} {
	if d == nil || (reflect.ValueOf(d).Kind() == reflect.Ptr && reflect.ValueOf(d).IsNil()) {
		return nil
	}
	switch v := d.(type) {
	case lime.TextDocument:
		return map[string]interface{}{"text": string(v)}
	case *lime.TextDocument:
		return map[string]interface{}{"text": string(*v)}
	case *lime.JsonDocument:
		b, _ := json.Marshal(map[string]interface{}(*v))
		return map[string]interface{}{"json": string(b)}
	case *lime.Ping:
		return map[string]interface{}{"ping": true}
	case *lime.DocumentContainer:
		return map[string]interface{}{"cont": absMT(v.Type), "value": absDoc(v.Value)}
	case *lime.DocumentCollection:
		items := []interface{}{}
		for _, it := range v.Items {
			items = append(items, absDoc(it))
		}
		return map[string]interface{}{"coll": absMT(v.ItemType), "total": v.Total, "items": items}
	}
	rv := reflect.ValueOf(d)
	if rv.Kind() == reflect.Ptr {
		rv = rv.Elem()
	}
	return map[string]interface{}{"custom": fmt.Sprintf("%T", d), "value": fmt.Sprintf("%#v", derefAll(rv.Interface()))}
}

// derefAll renders a struct with pointer fields by value (for printing).
func derefAll(v interface{}) interface{} {
	b, _ := json.Marshal(v)
	var out interface{}
	_ = json.Unmarshal(b, &out)
	return out
}

func absHdr(e lime.Envelope) map[string]interface{} {
	md := map[string]string{}
	for k, v := range e.Metadata {
		md[k] = v
	}
	return map[string]interface{}{"id": e.ID, "from": absNode(e.From), "pp": absNode(e.PP), "to": absNode(e.To), "meta": md}
}

func absReason(r *lime.Reason) interface{} {
	if r == nil {
		return nil
	}
	return [2]interface{}{r.Code, r.Description}
}

func strs(v interface{}) []string {
	rv := reflect.ValueOf(v)
	out := []string{}
	for i := 0; i < rv.Len(); i++ {
		out = append(out, rv.Index(i).String())
	}
	return out
}

// Abs projects an envelope to plain data, field by field, without using the
// library's own marshalling.
func Abs(e interface{}) (string, interface{}) {
	switch v := e.(type) {
	case *lime.Message:
		m := absHdr(v.Envelope)
		m["type"] = absMT(v.Type)
		m["content"] = absDoc(v.Content)
		return "msg", m
	case *lime.Notification:
		m := absHdr(v.Envelope)
		m["event"] = string(v.Event)
		m["reason"] = absReason(v.Reason)
		return "not", m
	case *lime.RequestCommand:
		m := absHdr(v.Envelope)
		m["method"] = string(v.Method)
		if v.Type != nil {
			m["type"] = absMT(*v.Type)
		}
		m["resource"] = absDoc(v.Resource)
		if v.URI != nil {
			m["uri"] = v.URI.String()
		}
		return "req", m
	case *lime.ResponseCommand:
		m := absHdr(v.Envelope)
		m["method"] = string(v.Method)
		if v.Type != nil {
			m["type"] = absMT(*v.Type)
		}
		m["resource"] = absDoc(v.Resource)
		m["status"] = string(v.Status)
		m["reason"] = absReason(v.Reason)
		return "resp", m
	case *lime.Session:
		m := absHdr(v.Envelope)
		m["state"] = string(v.State)
		m["eopts"] = strs(v.EncryptionOptions)
		m["copts"] = strs(v.CompressionOptions)
		m["sopts"] = strs(v.SchemeOptions)
		m["enc"] = string(v.Encryption)
		m["comp"] = string(v.Compression)
		m["scheme"] = string(v.Scheme)
		m["reason"] = absReason(v.Reason)
		switch a := v.Authentication.(type) {
		case nil:
			m["auth"] = nil
		case *lime.GuestAuthentication:
			m["auth"] = "guest"
		case *lime.TransportAuthentication:
			m["auth"] = "transport"
		case *lime.PlainAuthentication:
			m["auth"] = "plain:" + a.Password
		case *lime.KeyAuthentication:
			m["auth"] = "key:" + a.Key
		case *lime.ExternalAuthentication:
			m["auth"] = "external:" + a.Token + ":" + a.Issuer
		default:
			m["auth"] = fmt.Sprintf("%T", a)
		}
		return "ses", m
	}
	return fmt.Sprintf("%T", e), nil
}

func newOfKind(kind string) interface{} {
	switch kind {
	case "msg":
		return &lime.Message{}
	case "not":
		return &lime.Notification{}
	case "req":
		return &lime.RequestCommand{}
	case "resp":
		return &lime.ResponseCommand{}
	}
	return &lime.Session{}
}

// receiveBytes pushes bytes through the real TCP transport's receive path.
func receiveBytes(b []byte) (env interface{}, err error, panicked interface{}) {
	a, z := pipe.New(0, false)
	defer a.Close()
	defer z.Close()
	t := lime.VerifNewTCPTransport(z, &lime.TCPConfig{}, true)
	go func() {
		a.Write(b)
		a.Write([]byte("\n"))
		a.CloseWrite()
	}()
	ctx, cancel := context.WithTimeout(context.Background(), 5*time.Second)
	defer cancel()
	defer func() {
		if p := recover(); p != nil {
			panicked = p
		}
	}()
	env, err = t.Receive(ctx)
	return
}

func eq(a, b interface{}) string {
	if reflect.DeepEqual(a, b) {
		return "y"
	}
	return "n"
}

// ---- C01 -----------------------------------------------------------------------

// WS is set by the driver to a function that sends an envelope through a real
// WebSocket transport pair and returns what the far side received.
var WS func(e interface{}) (interface{}, error)

func replayRT(c Case, seed int) []Event {
	g := &gen{seed: seed + c.N}
	orig := g.build(*c.E)
	kind, want := Abs(orig)
	var evs []Event
	enc, err := json.Marshal(orig)
	if err != nil {
		return []Event{{K: "rt", Way: "typed", Kind: kind, Kind2: "encerr", Equal: "n", Detail: err.Error()}}
	}
	// typed decoder
	dst := newOfKind(kind)
	ev := Event{K: "rt", Way: "typed", Kind: kind}
	if err := json.Unmarshal(enc, dst); err != nil {
		ev.Kind2, ev.Equal, ev.Detail = "err", "n", err.Error()
	} else {
		k2, got := Abs(dst)
		ev.Kind2, ev.Equal = k2, eq(want, got)
	}
	evs = append(evs, ev)
	// transport receive path (kind discrimination)
	ev = Event{K: "rt", Way: "tcp", Kind: kind}
	env, err, p := receiveBytes(enc)
	switch {
	case p != nil:
		ev.Kind2, ev.Equal, ev.Detail = "panic", "n", fmt.Sprint(p)
	case err != nil:
		ev.Kind2, ev.Equal, ev.Detail = "err", "n", err.Error()
	default:
		k2, got := Abs(env)
		ev.Kind2, ev.Equal = k2, eq(want, got)
	}
	evs = append(evs, ev)
	if WS != nil {
		ev = Event{K: "rt", Way: "ws", Kind: kind}
		env, err := WS(orig)
		if err != nil {
			ev.Kind2, ev.Equal, ev.Detail = "err", "n", err.Error()
		} else {
			k2, got := Abs(env)
			ev.Kind2, ev.Equal = k2, eq(want, got)
		}
		evs = append(evs, ev)
	}
	return evs
}

// ---- C02 -----------------------------------------------------------------------

func shapeValue(s string) interface{} {
	switch s {
	case "null":
		return nil
	case "str":
		return "zz"
	case "empty":
		return ""
	case "num":
		return 7.0
	case "neg":
		return -3.0
	case "bool":
		return true
	case "obj":
		return map[string]interface{}{}
	case "arr":
		return []interface{}{}
	}
	return nil
}

// applyDev mutates a generic JSON tree at path.
func applyDev(tree interface{}, path []string, shape string) interface{} {
	if len(path) == 0 {
		return shapeValue(shape)
	}
	switch t := tree.(type) {
	case map[string]interface{}:
		key := path[0]
		if key == "k" { // metadata.k : some key of the map
			for k := range t {
				key = k
				break
			}
		}
		if len(path) == 1 && shape == "abs" {
			delete(t, key)
			return t
		}
		child, ok := t[key]
		if !ok && len(path) > 1 {
			return t
		}
		t[key] = applyDev(child, path[1:], shape)
		return t
	case []interface{}:
		if len(t) == 0 {
			return t
		}
		if len(path) == 1 && shape == "abs" {
			return t[1:]
		}
		t[0] = applyDev(t[0], path[1:], shape)
		return t
	}
	return tree
}

func predString(raw json.RawMessage) string {
	var s string
	if json.Unmarshal(raw, &s) == nil {
		return s
	}
	return string(raw)
}

func replayMut(c Case, seed int) []Event {
	g := &gen{seed: seed}
	orig := g.build(*c.E)
	enc, err := json.Marshal(orig)
	if err != nil {
		return []Event{{K: "mut", Outcome: "encerr", Detail: err.Error()}}
	}
	var tree interface{}
	_ = json.Unmarshal(enc, &tree)
	for _, d := range c.Dev {
		tree = applyDev(tree, d.Path, d.Shape)
	}
	mutated, _ := json.Marshal(tree)
	ev := Event{K: "mut", Pred: predString(c.Pred), Stable: ""}
	// every typed decoder must survive it
	for _, k := range []string{"msg", "not", "req", "resp", "ses"} {
		func() {
			defer func() {
				if p := recover(); p != nil {
					ev.Outcome = "panic"
					ev.Detail = fmt.Sprintf("typed %s: %v", k, p)
				}
			}()
			_ = json.Unmarshal(mutated, newOfKind(k))
		}()
	}
	env, rerr, p := receiveBytes(mutated)
	switch {
	case p != nil:
		ev.Outcome, ev.Detail = "panic", fmt.Sprintf("receive: %v", p)
	case ev.Outcome == "panic":
	case rerr != nil:
		ev.Outcome = "err"
	default:
		ev.Outcome = "ok"
		k2, got := Abs(env)
		ev.Kind2 = k2
		// whatever was accepted can be encoded again and decodes to an equal envelope
		func() {
			defer func() {
				if p := recover(); p != nil {
					ev.Stable, ev.Detail = "panic", fmt.Sprint(p)
				}
			}()
			re, err := json.Marshal(env)
			if err != nil {
				ev.Stable, ev.Detail = "encerr", err.Error()
				return
			}
			env2, err2, p2 := receiveBytes(re)
			if p2 != nil || err2 != nil {
				ev.Stable, ev.Detail = "decerr", fmt.Sprint(err2, p2)
				return
			}
			_, got2 := Abs(env2)
			ev.Stable = eq(got, got2)
		}()
	}
	if ev.Detail == "" && ev.Outcome != ev.Pred {
		ev.Detail = string(mutated)
	}
	return []Event{ev}
}

// ---- C11 -----------------------------------------------------------------------

func whichNode(n lime.Node, frm, pp, to lime.Node) string {
	switch {
	case n == (lime.Node{}):
		return ""
	case n == pp:
		return "pp"
	case n == frm:
		return "from"
	case n == to:
		return "to"
	}
	return "other"
}

func replayReply(c Case, seed int) []Event {
	var rc ReplyCase
	if err := json.Unmarshal(c.C, &rc); err != nil {
		return []Event{{K: "reply", Detail: "bad case: " + err.Error()}}
	}
	g := &gen{seed: seed + c.N}
	frm, pp, to := node(rc.Frm, "alice"), node(rc.PP, "bob"), node(rc.To, "carol")
	h := lime.Envelope{From: frm, PP: pp, To: to}
	if rc.ID != "" {
		h.ID = "id-" + g.str()
	}
	ev := Event{K: "reply", Kind: rc.Builder}
	ev.Expto = ""
	if rc.PP != "" {
		ev.Expto = "pp"
	} else if rc.Frm != "" {
		ev.Expto = "from"
	}
	if rc.To != "" {
		ev.Expfrm = "to"
	}
	var reply interface{}
	var reason *lime.Reason
	if rc.Reason != "" {
		reason = &lime.Reason{Code: 7, Description: g.str()}
	}
	switch rc.Builder {
	case "success", "successRes", "failure":
		uri, _ := lime.ParseLimeURI("/ping")
		req := &lime.RequestCommand{Command: lime.Command{Envelope: h, Method: lime.CommandMethod(rc.Method)}, URI: uri}
		if rc.Reqres == "y" {
			// the request has a resource of its own, of another media type than the one the reply will carry
			if len(rc.Doc.Spec) > 0 && rc.Doc.Spec[0] == "json" {
				req.SetResource(lime.TextDocument("asked with text"))
			} else {
				req.SetResource(&lime.JsonDocument{"asked": "with json"})
			}
		}
		var r *lime.ResponseCommand
		var wantRes interface{}
		switch rc.Builder {
		case "success":
			r = req.SuccessResponse()
		case "successRes":
			d, _ := g.doc(rc.Doc.Spec, rc.Doc.N)
			wantRes = absDoc(d)
			r = req.SuccessResponseWithResource(d)
		default:
			r = req.FailureResponse(reason)
		}
		reply = r
		ev.To, ev.Frm = whichNode(r.To, frm, pp, to), whichNode(r.From, frm, pp, to)
		if (r.PP != lime.Node{}) {
			ev.To = "to+pp" // the reply has a delegation node of its own: its sender is not its origin any more
		}
		ev.IDok = eq(r.ID, h.ID)
		ev.Method = eq(string(r.Method), rc.Method)
		ev.Status = string(r.Status)
		ev.Reason = eq(absReason(r.Reason), absReason(reason))
		if rc.Builder != "failure" {
			ev.Reason = eq(absReason(r.Reason), nil)
		}
		if r.Resource != nil {
			ev.Res = eq(absDoc(r.Resource), wantRes)
		}
		if r.Type != nil && r.Resource != nil {
			ev.Rtype = eq(absMT(*r.Type), absMT(r.Resource.MediaType()))
		} else if r.Type != nil {
			ev.Rtype = "n" // a type without a resource
		}
	default:
		m := &lime.Message{Envelope: h}
		m.SetContent(lime.TextDocument("hello"))
		var n *lime.Notification
		if rc.Builder == "notification" {
			n = m.Notification(lime.NotificationEvent(rc.Method))
		} else {
			n = m.FailedNotification(reason)
		}
		reply = n
		ev.To, ev.Frm = whichNode(n.To, frm, pp, to), whichNode(n.From, frm, pp, to)
		if (n.PP != lime.Node{}) {
			ev.To = "to+pp"
		}
		ev.IDok = eq(n.ID, h.ID)
		if rc.Builder == "notification" {
			ev.Method = eq(string(n.Event), rc.Method)
			ev.Reason = eq(absReason(n.Reason), nil)
		} else {
			ev.Method = eq(string(n.Event), "failed")
			ev.Reason = eq(absReason(n.Reason), absReason(reason))
		}
	}
	// the reply must survive the wire
	kind, want := Abs(reply)
	enc, err := json.Marshal(reply)
	if err != nil {
		ev.Wire, ev.Detail = "encerr", err.Error()
		return []Event{ev}
	}
	env, rerr, p := receiveBytes(enc)
	switch {
	case p != nil:
		ev.Wire, ev.Detail = "panic", fmt.Sprint(p)
	case rerr != nil:
		ev.Wire, ev.Detail = "err", rerr.Error()
	default:
		k2, got := Abs(env)
		if k2 == kind && reflect.DeepEqual(want, got) {
			ev.Wire = "ok"
		} else {
			ev.Wire = "differ"
		}
	}
	return []Event{ev}
}

// ---- text forms ----------------------------------------------------------------

func replayText(c Case) []Event {
	var tc TextCase
	if err := json.Unmarshal(c.C, &tc); err != nil {
		return []Event{{K: "text", Detail: "bad case: " + err.Error()}}
	}
	ev := Event{K: "text", Kind: tc.Form, Wf: "n"}
	if tc.Wf {
		ev.Wf = "y"
	}
	switch tc.Form {
	case "node":
		n := lime.Node{Identity: lime.Identity{Name: tc.A, Domain: tc.B}, Instance: tc.C}
		s := n.String()
		ev.Strok = eq(s, tc.Str)
		back := lime.ParseNode(s)
		ev.Backok = eq([]string{back.Name, back.Domain, back.Instance}, tc.Back)
		ev.Rt = eq(back, n)
		// the identity part on its own
		id := lime.Identity{Name: tc.A, Domain: tc.B}
		if tc.C == "" && lime.ParseIdentity(id.String()) != id && tc.Wf {
			ev.Rt = "n"
		}
	case "media":
		m := lime.MediaType{Type: tc.A, Subtype: tc.B, Suffix: tc.C}
		s := m.String()
		ev.Strok = eq(s, tc.Str)
		back, err := lime.ParseMediaType(s)
		if err != nil {
			ev.Backok = eq([]string{"!", "!", "!"}, tc.Back)
			ev.Rt = "n"
		} else {
			ev.Backok = eq([]string{back.Type, back.Subtype, back.Suffix}, tc.Back)
			ev.Rt = eq(back, m)
		}
	}
	return []Event{ev}
}

// Replay runs one case.
func Replay(c Case, seed int) Result {
	r := Result{N: c.N, Fam: c.Fam}
	func() {
		defer func() {
			if p := recover(); p != nil {
				r.Note = fmt.Sprintf("harness panic: %v", p)
			}
		}()
		switch c.Fam {
		case "rt":
			r.Actual = replayRT(c, seed)
		case "mut":
			r.Actual = replayMut(c, seed)
		case "reply":
			r.Actual = replayReply(c, seed)
		case "text":
			r.Actual = replayText(c)
		}
	}()
	return r
}
