// Package blockd times every context-taking blocking operation of lime-go, on
// each transport, against a peer that makes no progress, with a context that
// ends by deadline or by cancellation, before or during the call (Blocking.tla).
package blockd

import (
	"bufio"
	"context"
	"encoding/json"
	"errors"
	"fmt"
	"net"
	"runtime"
	"strings"
	"sync"
	"sync/atomic"
	"time"

	lime "github.com/takenet/lime-go"
	"verif/harness/hs"
)

type Cfg struct {
	Op     string `json:"op"`
	Tr     string `json:"tr"`
	Ctx    string `json:"ctx"`   // deadline | cancel
	EndAt  int    `json:"endat"` // 0 = the context has ended before the call, 1 = it ends while the call waits
	Wait   string `json:"wait"`
	Bound  int    `json:"bound"`  // seconds
	Lat    int    `json:"lat"`    // seconds, as the model predicts
	Blocks string `json:"blocks"` // whether the model says the call waits for the peer at all
}
type Case struct {
	N   int `json:"n"`
	Cfg Cfg `json:"cfg"`
}
type Event struct {
	K       string `json:"k"`
	Op      string `json:"op"`
	Tr      string `json:"tr"`
	Ctx     string `json:"ctx"`
	EndAt   int    `json:"endat"`
	Lat     int    `json:"lat"`   // milliseconds between the end of the context and the return
	Bound   int    `json:"bound"` // milliseconds
	Err     string `json:"err"`   // ctx | other | nil
	Blocked string `json:"blocked"`
	Hang    string `json:"hang"`
	Msg     string `json:"msg"`
}
type Result struct {
	Matched bool    `json:"matched"`
	N       int     `json:"n"`
	Cfg     Cfg     `json:"cfg"`
	Actual  []Event `json:"actual"`
	Note    string  `json:"note,omitempty"`
}

// the moment a context ends "during" the call: late enough that a large envelope has been
// encoded and the writer is parked in the socket write
func during(c Cfg) time.Duration {
	if (c.Op == "send" || strings.HasPrefix(c.Op, "chsend")) && c.Tr != "inproc" {
		return 1500 * time.Millisecond
	}
	return 200 * time.Millisecond
}

func smallMessage() *lime.Message {
	m := &lime.Message{}
	m.ID = "small"
	m.SetContent(lime.TextDocument("x"))
	return m
}

// payload: a context that has already ended must stop the call before anything is done, whatever
// the size; encoding a large envelope is CPU time, not blocking, and is kept out of the measure
func payload(c Cfg) *lime.Message {
	if c.EndAt == 0 {
		return smallMessage()
	}
	return bigMessage()
}

var portCounter int32

func nextAddr() *net.TCPAddr {
	n := atomic.AddInt32(&portCounter, 1)
	return &net.TCPAddr{IP: net.IPv4(127, 0, 0, 1), Port: 41000 + int(n)%9000}
}

var inprocMu sync.Mutex
var inprocN int32

func guest([]lime.AuthenticationScheme, lime.Authentication) lime.Authentication {
	return &lime.GuestAuthentication{}
}

var srvNode = lime.Node{Identity: lime.Identity{Name: "postmaster", Domain: "example.com"}, Instance: "srv"}

func bigMessage() *lime.Message {
	m := &lime.Message{}
	m.ID = "big"
	m.SetContent(lime.TextDocument(strings.Repeat("x", 12<<20)))
	return m
}

// rawListener accepts TCP connections and hands them to a script.
func rawListener(script func(net.Conn)) (net.Addr, func(), error) {
	ln, err := net.Listen("tcp", "127.0.0.1:0")
	if err != nil {
		return nil, nil, err
	}
	var mu sync.Mutex
	var conns []net.Conn
	go func() {
		for {
			c, err := ln.Accept()
			if err != nil {
				return
			}
			mu.Lock()
			conns = append(conns, c)
			mu.Unlock()
			go script(c)
		}
	}()
	return ln.Addr(), func() {
		ln.Close()
		mu.Lock()
		for _, c := range conns {
			c.Close()
		}
		mu.Unlock()
	}, nil
}

func silent(net.Conn) {}

func writeJSON(c net.Conn, s string) { c.Write([]byte(s + "\n")) }

// a raw server that takes a client through a guest handshake and then does nothing more
func handshakeThenSilent(c net.Conn) {
	dec := json.NewDecoder(bufio.NewReader(c))
	var m map[string]interface{}
	if dec.Decode(&m) != nil {
		return
	}
	writeJSON(c, `{"id":"s1","from":"postmaster@example.com/srv","to":"cli@example.com/i","state":"established"}`)
}

// a raw server that negotiates tls and then never starts the TLS handshake
func negotiateTLSThenSilent(c net.Conn) {
	dec := json.NewDecoder(bufio.NewReader(c))
	var m map[string]interface{}
	if dec.Decode(&m) != nil {
		return
	}
	writeJSON(c, `{"id":"s1","from":"postmaster@example.com/srv","state":"negotiating","encryptionOptions":["none","tls"],"compressionOptions":["none"]}`)
	if dec.Decode(&m) != nil {
		return
	}
	writeJSON(c, `{"id":"s1","from":"postmaster@example.com/srv","state":"negotiating","encryption":"tls","compression":"none"}`)
}

type setup struct {
	run     func(ctx context.Context) error // the operation under test
	cleanup func()
}

func limeServer(tr string, buffer int, blockHandlers chan struct{}) (dial func(context.Context) (lime.Transport, error), stop func(), err error) {
	cfg := lime.NewServerConfig()
	cfg.Node = srvNode
	cfg.SchemeOpts = []lime.AuthenticationScheme{lime.AuthenticationSchemeGuest}
	cfg.EncryptOpts = []lime.SessionEncryption{lime.SessionEncryptionNone}
	cfg.ChannelBufferSize = buffer
	cfg.Authenticate = func(context.Context, lime.Identity, lime.Authentication) (*lime.AuthenticationResult, error) {
		return lime.MemberAuthenticationResult(), nil
	}
	mux := &lime.EnvelopeMux{}
	mux.MessageHandlerFunc(nil, func(ctx context.Context, m *lime.Message, s lime.Sender) error {
		<-blockHandlers // a consumer that never gets on with it
		return nil
	})
	mux.NotificationHandlerFunc(nil, func(ctx context.Context, m *lime.Notification) error {
		<-blockHandlers
		return nil
	})
	mux.RequestCommandHandlerFunc(nil, func(ctx context.Context, m *lime.RequestCommand, s lime.Sender) error {
		<-blockHandlers // never answers
		return nil
	})
	mux.ResponseCommandHandlerFunc(nil, func(ctx context.Context, m *lime.ResponseCommand, s lime.Sender) error {
		<-blockHandlers
		return nil
	})
	for try := 0; try < 40; try++ {
		var bl lime.BoundListener
		switch tr {
		case "inproc":
			ia := lime.InProcessAddr(fmt.Sprintf("blockd-%d", atomic.AddInt32(&inprocN, 1)))
			bl = lime.NewBoundListener(lime.NewInProcessTransportListener(ia), ia)
			dial = func(ctx context.Context) (lime.Transport, error) {
				inprocMu.Lock()
				defer inprocMu.Unlock()
				return lime.DialInProcess(ia, 0)
			}
		case "ws":
			addr := nextAddr()
			bl = lime.NewBoundListener(lime.NewWebsocketTransportListener(&lime.WebsocketConfig{}), addr)
			dial = func(ctx context.Context) (lime.Transport, error) {
				return lime.DialWebsocket(ctx, "ws://"+addr.String()+"/", nil, nil)
			}
		default:
			addr := nextAddr()
			bl = lime.NewBoundListener(lime.NewTCPTransportListener(&lime.TCPConfig{}), addr)
			dial = func(ctx context.Context) (lime.Transport, error) { return lime.DialTcp(ctx, addr, nil) }
		}
		srv := lime.NewServer(cfg, mux, bl)
		done := make(chan error, 1)
		inprocMu.Lock()
		go func() { done <- srv.ListenAndServe() }()
		select {
		case <-done:
			inprocMu.Unlock()
			continue
		case <-time.After(30 * time.Millisecond):
		}
		inprocMu.Unlock()
		return dial, func() { inprocMu.Lock(); srv.Close(); inprocMu.Unlock() }, nil
	}
	return nil, nil, errors.New("could not start a server")
}

func established(tr string, buffer int, blockHandlers chan struct{}) (*lime.ClientChannel, func(), error) {
	dial, stop, err := limeServer(tr, buffer, blockHandlers)
	if err != nil {
		return nil, nil, err
	}
	ctx, cancel := context.WithTimeout(context.Background(), 5*time.Second)
	defer cancel()
	var t lime.Transport
	for i := 0; i < 100; i++ {
		if t, err = dial(ctx); err == nil {
			break
		}
		time.Sleep(5 * time.Millisecond)
	}
	if err != nil {
		stop()
		return nil, nil, err
	}
	cc := lime.NewClientChannel(t, 1)
	ses, err := cc.EstablishSession(ctx, lime.NoneCompressionSelector, lime.NoneEncryptionSelector,
		lime.Identity{Name: "cli", Domain: "example.com"}, guest, "i")
	if err != nil || ses.State != lime.SessionStateEstablished {
		stop()
		return nil, nil, fmt.Errorf("establish: %v", err)
	}
	return cc, stop, nil
}

// pair connects a client transport and a server transport of the given kind through the library's
// own listener (ws, inproc).
func pair(tr string) (lime.Transport, lime.Transport, func(), error) {
	bg := context.Background()
	var lis lime.TransportListener
	var dial func() (lime.Transport, error)
	var err error
	switch tr {
	case "ws":
		for try := 0; try < 40; try++ {
			addr := nextAddr()
			lis = lime.NewWebsocketTransportListener(&lime.WebsocketConfig{})
			if err = lis.Listen(bg, addr); err == nil {
				dial = func() (lime.Transport, error) {
					return lime.DialWebsocket(bg, "ws://"+addr.String()+"/", nil, nil)
				}
				break
			}
		}
	default:
		ia := lime.InProcessAddr(fmt.Sprintf("blockd-%d", atomic.AddInt32(&inprocN, 1)))
		lis = lime.NewInProcessTransportListener(ia)
		inprocMu.Lock()
		err = lis.Listen(bg, ia)
		inprocMu.Unlock()
		dial = func() (lime.Transport, error) {
			inprocMu.Lock()
			defer inprocMu.Unlock()
			return lime.DialInProcess(ia, 1)
		}
	}
	if err != nil {
		return nil, nil, nil, err
	}
	stop := func() { inprocMu.Lock(); lis.Close(); inprocMu.Unlock() }
	var ct lime.Transport
	for i := 0; i < 100; i++ {
		if ct, err = dial(); err == nil {
			break
		}
		time.Sleep(5 * time.Millisecond)
	}
	if err != nil {
		stop()
		return nil, nil, nil, err
	}
	actx, acancel := context.WithTimeout(bg, 3*time.Second)
	st, err := lis.Accept(actx)
	acancel()
	if err != nil {
		stop()
		return nil, nil, nil, err
	}
	return ct, st, func() { runtime.KeepAlive(ct); runtime.KeepAlive(st); stop() }, nil
}

func serverEstablish(sc *lime.ServerChannel) func(context.Context) error {
	return func(ctx context.Context) error {
		return sc.EstablishSession(ctx, []lime.SessionCompression{lime.SessionCompressionNone},
			[]lime.SessionEncryption{lime.SessionEncryptionNone, lime.SessionEncryptionTLS},
			[]lime.AuthenticationScheme{lime.AuthenticationSchemeGuest},
			func(context.Context, lime.Identity, lime.Authentication) (*lime.AuthenticationResult, error) {
				return lime.MemberAuthenticationResult(), nil
			},
			func(ctx context.Context, n lime.Node, c *lime.ServerChannel) (lime.Node, error) { return n, nil })
	}
}

func clientEstablish(cc *lime.ClientChannel) func(context.Context) error {
	return func(ctx context.Context) error {
		_, e := cc.EstablishSession(ctx, lime.NoneCompressionSelector, func(o []lime.SessionEncryption) lime.SessionEncryption { return o[0] },
			lime.Identity{Name: "cli", Domain: "example.com"}, guest, "i")
		return e
	}
}

// libraryPeers: session operations over ws / in-process between two library channels, the
// peer of the operation under test staying idle
func libraryPeers(c Cfg) (*setup, error) {
	ct, st, stop, err := pair(c.Tr)
	if err != nil {
		return nil, err
	}
	cc := lime.NewClientChannel(ct, 1)
	sc := lime.NewServerChannel(st, 1, srvNode, "5e551041-0000-4000-8000-0000000000c5")
	switch c.Op {
	case "estc": // the server side never answers
		return &setup{run: clientEstablish(cc), cleanup: stop}, nil
	case "ests": // the client side never speaks
		return &setup{run: serverEstablish(sc), cleanup: stop}, nil
	}
	ectx, ecancel := context.WithTimeout(context.Background(), 3*time.Second)
	defer ecancel()
	errc := make(chan error, 1)
	go func() { errc <- serverEstablish(sc)(ectx) }()
	if err := clientEstablish(cc)(ectx); err != nil {
		stop()
		return nil, fmt.Errorf("client establish: %v", err)
	}
	if err := <-errc; err != nil || !sc.Established() {
		stop()
		return nil, fmt.Errorf("server establish: %v", err)
	}
	if c.Op == "finishc" { // nobody answers 'finishing'
		return &setup{run: func(ctx context.Context) error { _, e := cc.FinishSession(ctx); return e }, cleanup: stop}, nil
	}
	return &setup{run: endSession(sc, c.Op), cleanup: stop}, nil
}

func prepare(c Cfg) (*setup, error) {
	bg := context.Background()
	switch c.Op {
	case "estc", "ests", "finishc", "finishs", "fails":
		if c.Tr == "ws" || (c.Tr == "inproc" && c.Op != "finishs" && c.Op != "fails") {
			return libraryPeers(c)
		}
	}
	if c.Op == "recvdrip" {
		// a slow peer: one byte of an endless envelope every 50 ms (the socket always has something to deliver
		// long before its poll deadline)
		addr, stop, err := rawListener(func(cn net.Conn) {
			cn.Write([]byte(`{"id":"drip","type":"text/plain","content":"`))
			for {
				if _, err := cn.Write([]byte("x")); err != nil {
					return
				}
				time.Sleep(50 * time.Millisecond)
			}
		})
		if err != nil {
			return nil, err
		}
		t, err := lime.DialTcp(bg, addr, nil)
		if err != nil {
			stop()
			return nil, err
		}
		return &setup{run: func(ctx context.Context) error { _, e := t.Receive(ctx); return e }, cleanup: stop}, nil
	}
	switch c.Op {
	case "send", "receive":
		switch c.Tr {
		case "tcp":
			addr, stop, err := rawListener(silent)
			if err != nil {
				return nil, err
			}
			t, err := lime.DialTcp(bg, addr, nil)
			if err != nil {
				stop()
				return nil, err
			}
			if c.Op == "send" {
				return &setup{run: func(ctx context.Context) error { return t.Send(ctx, payload(c)) }, cleanup: stop}, nil
			}
			return &setup{run: func(ctx context.Context) error { _, e := t.Receive(ctx); return e }, cleanup: stop}, nil
		case "ws":
			addr := nextAddr()
			var lis lime.TransportListener
			var err error
			for try := 0; try < 40; try++ {
				lis = lime.NewWebsocketTransportListener(&lime.WebsocketConfig{})
				if err = lis.Listen(bg, addr); err == nil {
					break
				}
				addr = nextAddr()
			}
			if err != nil {
				return nil, err
			}
			var t lime.Transport
			for i := 0; i < 100; i++ {
				if t, err = lime.DialWebsocket(bg, "ws://"+addr.String()+"/", nil, nil); err == nil {
					break
				}
				time.Sleep(5 * time.Millisecond)
			}
			if err != nil {
				lis.Close()
				return nil, err
			}
			actx, acancel := context.WithTimeout(bg, 3*time.Second)
			srvSide, _ := lis.Accept(actx) // the server side exists and stays idle (and referenced: no finalizer)
			acancel()
			stop := func() { runtime.KeepAlive(srvSide); lis.Close() }
			if c.Op == "send" {
				return &setup{run: func(ctx context.Context) error { return t.Send(ctx, payload(c)) }, cleanup: stop}, nil
			}
			return &setup{run: func(ctx context.Context) error { _, e := t.Receive(ctx); return e }, cleanup: stop}, nil
		default:
			ia := lime.InProcessAddr(fmt.Sprintf("blockd-%d", atomic.AddInt32(&inprocN, 1)))
			lis := lime.NewInProcessTransportListener(ia)
			inprocMu.Lock()
			err := lis.Listen(bg, ia)
			var t lime.Transport
			if err == nil {
				t, err = lime.DialInProcess(ia, 0)
			}
			inprocMu.Unlock()
			if err != nil {
				return nil, err
			}
			stop := func() { inprocMu.Lock(); lis.Close(); inprocMu.Unlock() }
			if c.Op == "send" {
				m := &lime.Message{}
				m.SetContent(lime.TextDocument("x"))
				return &setup{run: func(ctx context.Context) error { return t.Send(ctx, m) }, cleanup: stop}, nil
			}
			return &setup{run: func(ctx context.Context) error { _, e := t.Receive(ctx); return e }, cleanup: stop}, nil
		}
	case "accept":
		var lis lime.TransportListener
		var err error
		switch c.Tr {
		case "tcp", "ws":
			for try := 0; try < 40; try++ {
				if c.Tr == "tcp" {
					lis = lime.NewTCPTransportListener(&lime.TCPConfig{})
				} else {
					lis = lime.NewWebsocketTransportListener(&lime.WebsocketConfig{})
				}
				if err = lis.Listen(bg, nextAddr()); err == nil {
					break
				}
			}
		default:
			ia := lime.InProcessAddr(fmt.Sprintf("blockd-%d", atomic.AddInt32(&inprocN, 1)))
			lis = lime.NewInProcessTransportListener(ia)
			inprocMu.Lock()
			err = lis.Listen(bg, ia)
			inprocMu.Unlock()
		}
		if err != nil {
			return nil, err
		}
		return &setup{run: func(ctx context.Context) error { _, e := lis.Accept(ctx); return e },
			cleanup: func() { inprocMu.Lock(); lis.Close(); inprocMu.Unlock() }}, nil
	case "chsend", "chsendnot", "chsendreq", "chsendresp", "pcmd":
		block := make(chan struct{})
		cc, stop, err := established(c.Tr, 0, block)
		if err != nil {
			return nil, err
		}
		cleanup := func() { close(block); stop() }
		if c.Op == "pcmd" {
			req := &lime.RequestCommand{}
			req.ID = "never-answered"
			req.Method = lime.CommandMethodGet
			req.SetURIString("/ping")
			return &setup{run: func(ctx context.Context) error { _, e := cc.ProcessCommand(ctx, req); return e }, cleanup: cleanup}, nil
		}
		n := 0
		send := func(ctx context.Context, big bool) error {
			n++
			body := "x"
			if big {
				body = strings.Repeat("x", 12<<20)
			}
			env := lime.Envelope{ID: fmt.Sprintf("e%d", n)}
			switch c.Op {
			case "chsendnot":
				env.Metadata = map[string]string{"body": body}
				return cc.SendNotification(ctx, &lime.Notification{Envelope: env, Event: lime.NotificationEventReceived})
			case "chsendreq":
				r := &lime.RequestCommand{}
				r.Envelope = env
				r.Method = lime.CommandMethodSet
				r.SetURIString("/r")
				r.SetResource(lime.TextDocument(body))
				return cc.SendRequestCommand(ctx, r)
			case "chsendresp":
				r := &lime.ResponseCommand{}
				r.Envelope = env
				r.Method = lime.CommandMethodSet
				r.Status = lime.CommandStatusSuccess
				r.SetResource(lime.TextDocument(body))
				return cc.SendResponseCommand(ctx, r)
			}
			m := &lime.Message{Envelope: env}
			m.SetContent(lime.TextDocument(body))
			return cc.SendMessage(ctx, m)
		}
		if c.Tr == "inproc" {
			// the consumer is stuck in its first handler: the next envelopes fill the way
			pre, pcancel := context.WithTimeout(bg, 300*time.Millisecond)
			for i := 0; i < 4; i++ {
				_ = send(pre, false)
			}
			pcancel()
			return &setup{run: func(ctx context.Context) error { return send(ctx, false) }, cleanup: cleanup}, nil
		}
		// the consumer is stuck in its first handler and the receiver behind it: nothing is read any more
		pre, pcancel := context.WithTimeout(bg, 2*time.Second)
		for i := 0; i < 3; i++ {
			if err := send(pre, false); err != nil {
				pcancel()
				cleanup()
				return nil, err
			}
		}
		pcancel()
		time.Sleep(50 * time.Millisecond)
		return &setup{run: func(ctx context.Context) error { return send(ctx, c.EndAt == 1) }, cleanup: cleanup}, nil
	case "estc", "esttlsc", "finishc":
		script := silent
		if c.Op == "esttlsc" {
			script = negotiateTLSThenSilent
		}
		if c.Op == "finishc" {
			script = handshakeThenSilent
		}
		addr, stop, err := rawListener(script)
		if err != nil {
			return nil, err
		}
		t, err := lime.DialTcp(bg, addr, &lime.TCPConfig{TLSConfig: hs.ClientTLS})
		if err != nil {
			stop()
			return nil, err
		}
		cc := lime.NewClientChannel(t, 1)
		if c.Op == "finishc" {
			ectx, ecancel := context.WithTimeout(bg, 3*time.Second)
			_, err := cc.EstablishSession(ectx, lime.NoneCompressionSelector, lime.NoneEncryptionSelector,
				lime.Identity{Name: "cli", Domain: "example.com"}, guest, "i")
			ecancel()
			if err != nil {
				stop()
				return nil, err
			}
			return &setup{run: func(ctx context.Context) error { _, e := cc.FinishSession(ctx); return e }, cleanup: stop}, nil
		}
		return &setup{run: func(ctx context.Context) error {
			_, e := cc.EstablishSession(ctx, lime.NoneCompressionSelector, lime.TLSEncryptionSelector,
				lime.Identity{Name: "cli", Domain: "example.com"}, guest, "i")
			return e
		}, cleanup: stop}, nil
	case "ests", "esttlss", "finishs", "fails":
		var lis lime.TransportListener
		var addr net.Addr
		var err error
		var dialRaw func() (net.Conn, error)
		if c.Tr == "inproc" {
			block := make(chan struct{})
			// finishs over the in-process transport: a library client that stays connected
			st, stop, err := limeServerWithChannel(block, c.Op)
			if err != nil {
				return nil, err
			}
			st.cleanup = stopErr(stop, block)
			return st, nil
		}
		for try := 0; try < 40; try++ {
			a := nextAddr()
			lis = lime.NewTCPTransportListener(&lime.TCPConfig{TLSConfig: hs.ServerTLS})
			if err = lis.Listen(bg, a); err == nil {
				addr = a
				break
			}
		}
		if err != nil {
			return nil, err
		}
		dialRaw = func() (net.Conn, error) { return net.DialTimeout("tcp", addr.String(), 2*time.Second) }
		raw, err := dialRaw()
		if err != nil {
			lis.Close()
			return nil, err
		}
		actx, acancel := context.WithTimeout(bg, 3*time.Second)
		st, err := lis.Accept(actx)
		acancel()
		if err != nil {
			lis.Close()
			return nil, err
		}
		sc := lime.NewServerChannel(st, 1, srvNode, "5e551041-0000-4000-8000-0000000000c5")
		stop := func() { raw.Close(); lis.Close() }
		enc := []lime.SessionEncryption{lime.SessionEncryptionNone}
		if c.Op == "esttlss" {
			enc = []lime.SessionEncryption{lime.SessionEncryptionNone, lime.SessionEncryptionTLS}
			go func() { // a raw client that asks for tls and then never speaks TLS
				dec := json.NewDecoder(bufio.NewReader(raw))
				var m map[string]interface{}
				writeJSON(raw, `{"state":"new"}`)
				if dec.Decode(&m) != nil {
					return
				}
				writeJSON(raw, `{"id":"5e551041-0000-4000-8000-0000000000c5","state":"negotiating","encryption":"tls","compression":"none"}`)
			}()
		}
		establish := func(ctx context.Context) error {
			return sc.EstablishSession(ctx, []lime.SessionCompression{lime.SessionCompressionNone}, enc,
				[]lime.AuthenticationScheme{lime.AuthenticationSchemeGuest},
				func(context.Context, lime.Identity, lime.Authentication) (*lime.AuthenticationResult, error) {
					return lime.MemberAuthenticationResult(), nil
				},
				func(ctx context.Context, n lime.Node, c *lime.ServerChannel) (lime.Node, error) { return n, nil })
		}
		if c.Op == "finishs" || c.Op == "fails" {
			go func() { // a raw client that completes a guest handshake and then ignores everything
				dec := json.NewDecoder(bufio.NewReader(raw))
				var m map[string]interface{}
				writeJSON(raw, `{"state":"new"}`)
				if dec.Decode(&m) != nil {
					return
				}
				writeJSON(raw, `{"id":"5e551041-0000-4000-8000-0000000000c5","from":"cli@example.com/i","state":"authenticating","scheme":"guest","authentication":{}}`)
			}()
			ectx, ecancel := context.WithTimeout(bg, 3*time.Second)
			err := establish(ectx)
			ecancel()
			if err != nil || !sc.Established() {
				stop()
				return nil, fmt.Errorf("server establish: %v", err)
			}
			return &setup{run: endSession(sc, c.Op), cleanup: stop}, nil
		}
		return &setup{run: establish, cleanup: stop}, nil
	}
	return nil, fmt.Errorf("unknown operation %s/%s", c.Op, c.Tr)
}

// finishs over the in-process transport: a real Server's channel finished by the application
func limeServerWithChannel(block chan struct{}, op string) (*setup, func(), error) {
	cfg := lime.NewServerConfig()
	cfg.Node = srvNode
	cfg.SchemeOpts = []lime.AuthenticationScheme{lime.AuthenticationSchemeGuest}
	cfg.EncryptOpts = []lime.SessionEncryption{lime.SessionEncryptionNone}
	cfg.Authenticate = func(context.Context, lime.Identity, lime.Authentication) (*lime.AuthenticationResult, error) {
		return lime.MemberAuthenticationResult(), nil
	}
	got := make(chan *lime.ServerChannel, 1)
	cfg.Established = func(id string, sc *lime.ServerChannel) { got <- sc }
	ia := lime.InProcessAddr(fmt.Sprintf("blockd-%d", atomic.AddInt32(&inprocN, 1)))
	srv := lime.NewServer(cfg, &lime.EnvelopeMux{}, lime.NewBoundListener(lime.NewInProcessTransportListener(ia), ia))
	inprocMu.Lock()
	go srv.ListenAndServe()
	time.Sleep(30 * time.Millisecond)
	t, err := lime.DialInProcess(ia, 1)
	inprocMu.Unlock()
	if err != nil {
		return nil, nil, err
	}
	cc := lime.NewClientChannel(t, 1)
	ectx, ecancel := context.WithTimeout(context.Background(), 3*time.Second)
	defer ecancel()
	if _, err := cc.EstablishSession(ectx, lime.NoneCompressionSelector, lime.NoneEncryptionSelector,
		lime.Identity{Name: "cli", Domain: "example.com"}, guest, "i"); err != nil {
		return nil, nil, err
	}
	var sc *lime.ServerChannel
	select {
	case sc = <-got:
	case <-time.After(2 * time.Second):
		return nil, nil, errors.New("no established callback")
	}
	return &setup{run: endSession(sc, op)},
		func() { inprocMu.Lock(); srv.Close(); inprocMu.Unlock() }, nil
}

func endSession(sc *lime.ServerChannel, op string) func(context.Context) error {
	if op == "fails" {
		return func(ctx context.Context) error {
			return sc.FailSession(ctx, &lime.Reason{Code: 1, Description: "ended by the application"})
		}
	}
	return func(ctx context.Context) error { return sc.FinishSession(ctx) }
}

func stopErr(stop func(), block chan struct{}) func() {
	return func() { close(block); stop() }
}

// Replay times one case.
func Replay(c Case) Result {
	res := Result{N: c.N, Cfg: c.Cfg}
	// the preparation itself uses context-taking operations with short deadlines (to fill queues): one of
	// them not coming back is the very thing this check is about
	type prep struct {
		st  *setup
		err error
	}
	pc := make(chan prep, 1)
	go func() { st, err := prepare(c.Cfg); pc <- prep{st, err} }()
	var st *setup
	var err error
	select {
	case p := <-pc:
		st, err = p.st, p.err
	case <-time.After(12 * time.Second):
		res.Actual = []Event{{K: "op", Op: c.Cfg.Op, Tr: c.Cfg.Tr, Ctx: c.Cfg.Ctx, EndAt: c.Cfg.EndAt, Bound: c.Cfg.Bound * 1000,
			Lat: 12000, Err: "none", Blocked: "y", Hang: "y", Msg: "an operation of the preparation ignored its deadline"}}
		res.Note = "preparation hangs"
		return res
	}
	if err != nil {
		res.Note = "setup: " + err.Error()
		return res
	}
	if st.cleanup != nil {
		defer st.cleanup()
	}
	time.Sleep(100 * time.Millisecond) // goroutines started by the setup (receivers) reach their waits
	dur := during(c.Cfg)
	var ctx context.Context
	var cancel context.CancelFunc
	var endedAt time.Time
	var endMu sync.Mutex
	setEnd := func(t time.Time) { endMu.Lock(); endedAt = t; endMu.Unlock() }
	start := time.Now()
	switch {
	case c.Cfg.Ctx == "deadline" && c.Cfg.EndAt == 0:
		ctx, cancel = context.WithDeadline(context.Background(), start.Add(-time.Millisecond))
		setEnd(start)
	case c.Cfg.Ctx == "deadline":
		d := start.Add(dur)
		ctx, cancel = context.WithDeadline(context.Background(), d)
		setEnd(d)
	case c.Cfg.EndAt == 0:
		ctx, cancel = context.WithCancel(context.Background())
		cancel()
		setEnd(start)
	default:
		ctx, cancel = context.WithCancel(context.Background())
		go func() {
			time.Sleep(dur)
			setEnd(time.Now())
			cancel()
		}()
	}
	defer cancel()
	done := make(chan error, 1)
	go func() { done <- st.run(ctx) }()
	boundMs := c.Cfg.Bound * 1000
	limit := time.Duration(boundMs)*time.Millisecond + dur + 4*time.Second
	ev := Event{K: "op", Op: c.Cfg.Op, Tr: c.Cfg.Tr, Ctx: c.Cfg.Ctx, EndAt: c.Cfg.EndAt, Bound: boundMs, Hang: "n", Blocked: "y"}
	select {
	case err := <-done:
		ret := time.Now()
		endMu.Lock()
		e := endedAt
		endMu.Unlock()
		if e.IsZero() || ret.Before(e) {
			ev.Blocked = "n" // it returned before its context ended
			ev.Lat = 0
		} else {
			ev.Lat = int(ret.Sub(e) / time.Millisecond)
		}
		if err != nil {
			ev.Msg = err.Error()
			if len(ev.Msg) > 160 {
				ev.Msg = ev.Msg[:160]
			}
		}
		switch {
		case err == nil:
			ev.Err = "nil"
		case errors.Is(err, context.DeadlineExceeded) || errors.Is(err, context.Canceled) || strings.Contains(err.Error(), "i/o timeout"):
			ev.Err = "ctx"
		default:
			ev.Err = "other"
		}
	case <-time.After(limit):
		ev.Hang = "y"
		ev.Lat = int(limit / time.Millisecond)
		ev.Err = "none"
	}
	res.Actual = []Event{ev}
	// conformance with the model's prediction: does it wait at all, and how long after the context's end
	const slackMs = 1000
	res.Matched = ev.Hang == "n" && ev.Lat <= c.Cfg.Lat*1000+slackMs &&
		(c.Cfg.EndAt == 0 || ev.Blocked == c.Cfg.Blocks)
	if !res.Matched {
		res.Note = fmt.Sprintf("model: blocks=%s latency=%ds; observed: blocked=%s latency=%dms hang=%s", c.Cfg.Blocks, c.Cfg.Lat, ev.Blocked, ev.Lat, ev.Hang)
	}
	return res
}
