// Package clid runs a real lime Client against a scripted raw server that
// injects, at a chosen moment, something the application did not ask for:
// finish / fail by the server, abrupt close, half close, undecodable bytes,
// JSON that is no envelope, an oversized envelope. It records sessions opened,
// handler deliveries, the iteration rate of the client's listener loop and the
// truthfulness of send results (CliObs.tla).
package clid

import (
	"bufio"
	"context"
	"crypto/tls"
	"encoding/json"
	"errors"
	"fmt"
	"net"
	"net/http"
	"runtime"
	"strings"
	"sync"
	"sync/atomic"
	"time"

	"github.com/gorilla/websocket"
	lime "github.com/takenet/lime-go"
	"verif/harness/hs"
)

type Event struct {
	K   string `json:"k"`
	N   int    `json:"n"`
	Tag string `json:"tag"`
	Res string `json:"res"`
}

type Cfg struct {
	Transport string `json:"transport"` // tcp
	Fault     string `json:"fault"`
	Moment    string `json:"moment"` // idle | midsend | repeat
	Seed      int    `json:"seed"`
}
type Case struct {
	N   int `json:"n"`
	Cfg Cfg `json:"cfg"`
}
type Result struct {
	N      int     `json:"n"`
	Cfg    Cfg     `json:"cfg"`
	Actual []Event `json:"actual"`
	Note   string  `json:"note,omitempty"`
}

var iters sync.Map // *lime.Client -> *int64

func init() {
	prev := lime.VerifHook
	lime.VerifHook = func(point string, args ...interface{}) {
		if point == "cli.listen" && len(args) == 1 {
			if v, ok := iters.Load(args[0]); ok {
				atomic.AddInt64(v.(*int64), 1)
			}
		}
		if prev != nil {
			prev(point, args...)
		}
	}
}

type rec struct {
	mu  sync.Mutex
	evs []Event
}

func (r *rec) log(e Event) {
	r.mu.Lock()
	r.evs = append(r.evs, e)
	r.mu.Unlock()
}
func (r *rec) has(k, tag string) bool {
	r.mu.Lock()
	defer r.mu.Unlock()
	for _, e := range r.evs {
		if e.K == k && (tag == "" || e.Tag == tag) {
			return true
		}
	}
	return false
}
func (r *rec) count(k string) int {
	r.mu.Lock()
	defer r.mu.Unlock()
	n := 0
	for _, e := range r.evs {
		if e.K == k {
			n++
		}
	}
	return n
}

type rawServer struct {
	ln     net.Listener
	r      *rec
	tls    bool
	mu     sync.Mutex
	wmu    sync.Mutex
	n      int
	cur    net.Conn // what the session is written to (the TLS layer when upgraded)
	curRaw net.Conn // the TCP connection underneath
	curWS  *websocket.Conn
	curN   int
	// fault "refuse": new sessions are answered with 'failed' until this moment; how many tried
	refuseUntil time.Time
	attempts    int32
}

// ServeHTTP: the websocket flavour of the scripted server (one text message per envelope)
func (s *rawServer) ServeHTTP(w http.ResponseWriter, r *http.Request) {
	up := websocket.Upgrader{Subprotocols: []string{"lime"}, CheckOrigin: func(*http.Request) bool { return true }}
	ws, err := up.Upgrade(w, r, nil)
	if err != nil {
		return
	}
	ws.SetReadDeadline(time.Now().Add(3 * time.Second))
	var first map[string]interface{}
	if err := ws.ReadJSON(&first); err != nil {
		ws.Close()
		return
	}
	ws.SetReadDeadline(time.Time{})
	s.mu.Lock()
	s.n++
	n := s.n
	s.mu.Unlock()
	sid := fmt.Sprintf("5e551041-0000-4000-8000-%012x", n)
	if err := ws.WriteMessage(websocket.TextMessage, []byte(fmt.Sprintf(`{"id":%q,"from":"postmaster@example.com/srv","to":"cli@example.com/i","state":"established"}`, sid))); err != nil {
		ws.Close()
		return
	}
	s.mu.Lock()
	under := ws.UnderlyingConn()
	rawTCP := under
	if tc, ok := under.(*tls.Conn); ok {
		rawTCP = tc.NetConn() // wss: faults at the connection level hit the TCP connection
	}
	s.cur, s.curRaw, s.curWS, s.curN = under, rawTCP, ws, n
	s.mu.Unlock()
	s.r.log(Event{K: "session", N: n})
	defer s.r.log(Event{K: "released", N: n})
	for {
		var m map[string]interface{}
		if err := ws.ReadJSON(&m); err != nil {
			return
		}
		if id, _ := m["id"].(string); strings.HasPrefix(id, "u-") {
			s.r.log(Event{K: "recv", Tag: id, N: n})
		}
		if st, _ := m["state"].(string); st == "finishing" {
			s.write([]byte(fmt.Sprintf(`{"id":%q,"from":"postmaster@example.com/srv","state":"finished"}`, sid)))
			ws.Close()
			return
		}
	}
}

// write sends one envelope (or anything else) on the current session
func (s *rawServer) write(b []byte) error {
	s.mu.Lock()
	c, ws := s.cur, s.curWS
	s.mu.Unlock()
	if ws != nil {
		s.wmu.Lock()
		defer s.wmu.Unlock()
		ws.SetWriteDeadline(time.Now().Add(time.Second))
		return ws.WriteMessage(websocket.TextMessage, b)
	}
	c.SetWriteDeadline(time.Now().Add(time.Second))
	_, err := c.Write(append(b, '\n'))
	return err
}

func (s *rawServer) serve() {
	for {
		c, err := s.ln.Accept()
		if err != nil {
			return
		}
		go s.session(c)
	}
}

func (s *rawServer) session(raw net.Conn) {
	c := raw
	dec := json.NewDecoder(bufio.NewReader(c))
	var first map[string]interface{}
	c.SetReadDeadline(time.Now().Add(3 * time.Second))
	if err := dec.Decode(&first); err != nil {
		c.Close()
		return
	}
	s.mu.Lock()
	refusing := time.Now().Before(s.refuseUntil)
	s.mu.Unlock()
	if refusing { // a reachable server that does not want this client for the moment
		atomic.AddInt32(&s.attempts, 1)
		fmt.Fprintf(c, `{"id":"5e551041-0000-4000-8000-00000000dead","from":"postmaster@example.com/srv","state":"failed","reason":{"code":13,"description":"not now"}}`+"\n")
		c.Close()
		return
	}
	s.mu.Lock()
	s.n++
	n := s.n
	s.mu.Unlock()
	sid := fmt.Sprintf("5e551041-0000-4000-8000-%012x", n)
	if s.tls {
		// negotiation, TLS upgrade, authentication
		var m map[string]interface{}
		fmt.Fprintf(c, `{"id":%q,"from":"postmaster@example.com/srv","state":"negotiating","encryptionOptions":["tls"],"compressionOptions":["none"]}`+"\n", sid)
		if err := dec.Decode(&m); err != nil {
			c.Close()
			return
		}
		fmt.Fprintf(c, `{"id":%q,"from":"postmaster@example.com/srv","state":"negotiating","encryption":"tls","compression":"none"}`+"\n", sid)
		tc := tls.Server(raw, hs.ServerTLS)
		tc.SetDeadline(time.Now().Add(3 * time.Second))
		if err := tc.Handshake(); err != nil {
			raw.Close()
			return
		}
		c = tc
		dec = json.NewDecoder(bufio.NewReader(c))
		fmt.Fprintf(c, `{"id":%q,"from":"postmaster@example.com/srv","state":"authenticating","schemeOptions":["guest"]}`+"\n", sid)
		if err := dec.Decode(&m); err != nil {
			c.Close()
			return
		}
	}
	c.SetDeadline(time.Time{})
	// (plain TCP: a guest handshake cut short, straight to established)
	if _, err := c.Write([]byte(fmt.Sprintf(`{"id":%q,"from":"postmaster@example.com/srv","to":"cli@example.com/i","state":"established"}`+"\n", sid))); err != nil {
		c.Close()
		return
	}
	s.mu.Lock()
	s.cur, s.curRaw, s.curN = c, raw, n
	s.mu.Unlock()
	s.r.log(Event{K: "session", N: n})
	defer s.r.log(Event{K: "released", N: n}) // the read side ended: the client closed (or the fault did)
	for {
		var m map[string]interface{}
		if err := dec.Decode(&m); err != nil {
			return
		}
		if id, _ := m["id"].(string); strings.HasPrefix(id, "u-") {
			s.r.log(Event{K: "recv", Tag: id, N: n})
		}
		if st, _ := m["state"].(string); st == "finishing" {
			c.Write([]byte(fmt.Sprintf(`{"id":%q,"from":"postmaster@example.com/srv","state":"finished"}`+"\n", sid)))
			c.Close()
			return
		}
	}
}

func (s *rawServer) current() (net.Conn, int) {
	s.mu.Lock()
	defer s.mu.Unlock()
	return s.cur, s.curN
}

func (s *rawServer) push(tag string) bool {
	c, n := s.current()
	if c == nil {
		return false
	}
	s.r.log(Event{K: "pushed", Tag: tag, N: n})
	return s.write([]byte(fmt.Sprintf(`{"id":%q,"type":"text/plain","content":"hello"}`, tag))) == nil
}

func (s *rawServer) inject(fault string) {
	c, n := s.current()
	if c == nil {
		return
	}
	s.mu.Lock()
	raw := s.curRaw
	s.mu.Unlock()
	s.r.log(Event{K: "fault", Res: fault, N: n})
	sid := fmt.Sprintf("5e551041-0000-4000-8000-%012x", n)
	switch fault {
	case "finish":
		s.write([]byte(fmt.Sprintf(`{"id":%q,"from":"postmaster@example.com/srv","state":"finished"}`, sid)))
	case "fail":
		s.write([]byte(fmt.Sprintf(`{"id":%q,"from":"postmaster@example.com/srv","state":"failed","reason":{"code":1,"description":"gone"}}`, sid)))
	case "refuse": // fails the session and turns the client away for a while
		s.mu.Lock()
		s.refuseUntil = time.Now().Add(1200 * time.Millisecond)
		s.mu.Unlock()
		s.write([]byte(fmt.Sprintf(`{"id":%q,"from":"postmaster@example.com/srv","state":"failed","reason":{"code":1,"description":"gone"}}`, sid)))
	case "abrupt":
		raw.Close()
	case "vanish": // the connection drops and the server is gone for good
		s.ln.Close()
		raw.Close()
	case "reset": // the peer's kernel answers with RST: the client reads ECONNRESET, not EOF
		if tc, ok := raw.(*net.TCPConn); ok {
			tc.SetLinger(0)
		}
		raw.Close()
	case "half":
		if tc, ok := raw.(*net.TCPConn); ok {
			tc.CloseWrite()
		}
	case "garbage":
		s.write([]byte("}{ not json"))
	case "junk":
		s.write([]byte(`{"foo":1}`))
	case "oversized":
		s.write([]byte(`{"id":"big","type":"text/plain","content":"` + strings.Repeat("x", 20000) + `"}`))
	}
}

func waitFor(pred func() bool, d time.Duration) bool {
	dl := time.Now().Add(d)
	for time.Now().Before(dl) {
		if pred() {
			return true
		}
		time.Sleep(2 * time.Millisecond)
	}
	return pred()
}

// Replay runs one fault case.
func Replay(c Case) Result {
	if c.Cfg.Moment == "handshake" {
		return replayHandshake(c)
	}
	if c.Cfg.Moment == "ping" {
		return replayPing(c)
	}
	if c.Cfg.Moment == "srvping" {
		return replaySrvPing(c)
	}
	res := Result{N: c.N, Cfg: c.Cfg}
	r := &rec{}
	ln, err := net.Listen("tcp", "127.0.0.1:0")
	if err != nil {
		res.Note = "listen: " + err.Error()
		return res
	}
	defer ln.Close()
	srv := &rawServer{ln: ln, r: r, tls: c.Cfg.Transport == "tls"}
	if c.Cfg.Transport == "ws" || c.Cfg.Transport == "wss" {
		hsrv := &http.Server{Handler: srv}
		if c.Cfg.Transport == "wss" {
			hsrv.TLSConfig = hs.ServerTLS
			go hsrv.ServeTLS(ln, "", "")
		} else {
			go hsrv.Serve(ln)
		}
		defer hsrv.Close()
	} else {
		go srv.serve()
	}
	addr := ln.Addr()

	cfg := lime.NewClientConfig()
	cfg.Node = lime.Node{Identity: lime.Identity{Name: "cli", Domain: "example.com"}, Instance: "i"}
	cfg.ChannelBufferSize = 4
	if c.N%2 == 0 {
		cfg.ChannelBufferSize = 0 // unbuffered streams: whatever the receiver hands over, somebody must be there to take it
	}
	cfg.NewTransport = func(ctx context.Context) (lime.Transport, error) {
		if c.Cfg.Transport == "ws" {
			return lime.DialWebsocket(ctx, "ws://"+addr.String()+"/", nil, nil)
		}
		if c.Cfg.Transport == "wss" {
			return lime.DialWebsocket(ctx, "wss://"+addr.String()+"/", nil, hs.ClientTLS)
		}
		return lime.DialTcp(ctx, addr, &lime.TCPConfig{ReadLimit: 4096, TLSConfig: hs.ClientTLS})
	}
	if c.Cfg.Transport == "tls" {
		cfg.EncryptSelector = lime.TLSEncryptionSelector
	}
	cfg.Authenticator = func([]lime.AuthenticationScheme, lime.Authentication) lime.Authentication {
		return &lime.GuestAuthentication{}
	}
	mux := &lime.EnvelopeMux{}
	mux.MessageHandlerFunc(nil, func(ctx context.Context, m *lime.Message, s lime.Sender) error {
		r.log(Event{K: "delivered", Tag: m.ID})
		return nil
	})
	var counter int64
	client := lime.NewClient(cfg, mux)
	iters.Store(client, &counter)
	defer iters.Delete(client)

	if !waitFor(func() bool { return r.count("session") >= 1 }, 3*time.Second) {
		res.Note = "no first session"
		res.Actual = r.evs
		return res
	}
	time.Sleep(5 * time.Millisecond)
	srv.push("push-1")
	waitFor(func() bool { return r.has("delivered", "push-1") }, time.Second)

	stopSend := make(chan struct{})
	var sendWG sync.WaitGroup
	if c.Cfg.Moment == "midsend" {
		sendWG.Add(1)
		go func() {
			defer sendWG.Done()
			for i := 0; ; i++ {
				select {
				case <-stopSend:
					return
				default:
				}
				tag := fmt.Sprintf("u-%d", i)
				m := &lime.Message{}
				m.ID = tag
				m.SetContent(lime.TextDocument("x"))
				err := sendGuarded(client, m, time.Second)
				if err == nil {
					r.log(Event{K: "send", Tag: tag, Res: "ok"})
				} else if err == errHang {
					r.log(Event{K: "send", Tag: tag, Res: "hang"})
					return
				} else {
					r.log(Event{K: "send", Tag: tag, Res: "err"})
				}
				time.Sleep(300 * time.Microsecond)
			}
		}()
		time.Sleep(3 * time.Millisecond)
	}

	rounds := 1
	if c.Cfg.Moment == "repeat" {
		rounds = 2
	}
	for round := 1; round <= rounds; round++ {
		before := r.count("session")
		srv.inject(c.Cfg.Fault)
		// the listener loop must not spin: sample its iteration counter over 250 ms windows
		maxRate := int64(0)
		recovered := false
		for w := 0; w < 12; w++ {
			a := atomic.LoadInt64(&counter)
			time.Sleep(250 * time.Millisecond)
			if d := atomic.LoadInt64(&counter) - a; d > maxRate {
				maxRate = d
			}
			if r.count("session") > before {
				recovered = true
				if w >= 1 {
					break
				}
			}
		}
		r.log(Event{K: "rate", N: int(maxRate)})
		if c.Cfg.Fault == "refuse" {
			r.log(Event{K: "attempts", N: int(atomic.LoadInt32(&srv.attempts))})
		}
		if recovered {
			time.Sleep(5 * time.Millisecond)
			tag := fmt.Sprintf("push-%d", round+1)
			srv.push(tag)
			waitFor(func() bool { return r.has("delivered", tag) }, time.Second)
		}
	}
	close(stopSend)
	sendWG.Wait()
	// a user operation after it all
	{
		m := &lime.Message{}
		m.ID = "u-after"
		m.SetContent(lime.TextDocument("x"))
		err := sendGuarded(client, m, 2*time.Second)
		if err == nil {
			r.log(Event{K: "send", Tag: "u-after", Res: "ok"})
			waitFor(func() bool { return r.has("recv", "u-after") }, 2*time.Second)
		} else if err == errHang {
			r.log(Event{K: "send", Tag: "u-after", Res: "hang"})
		} else {
			r.log(Event{K: "send", Tag: "u-after", Res: "err"})
		}
		time.Sleep(5 * time.Millisecond)
	}
	closed := make(chan struct{})
	go func() { _ = client.Close(); close(closed) }()
	endRes := "closed"
	select {
	case <-closed:
	case <-time.After(8 * time.Second):
		endRes = "close-hangs"
	}
	// every connection the client ever made is closed by now (the old ones when it replaced them)
	waitFor(func() bool { return r.count("released") >= r.count("session") }, 2*time.Second)
	if c.Cfg.Fault == "vanish" && endRes == "closed" {
		// this case runs in a process of its own: no listener goroutine of any client may be left
		left := "gone"
		if !waitFor(func() bool { return !strings.Contains(allStacks(), "lime-go.(*Client).startListener") }, 2*time.Second) {
			left = "left"
		}
		r.log(Event{K: "listener", Res: left})
	}
	r.log(Event{K: "end", Res: endRes})
	r.mu.Lock()
	res.Actual = append([]Event(nil), r.evs...)
	r.mu.Unlock()
	return res
}

type markKey struct{}

// replayHandshake: the first connection the client makes on behalf of Establish is answered with a
// session envelope that is not 'established' (Fault = the state sent instead); every later one is
// served normally. Establish may report success only once a session really is established (C08 at
// the level of the Client).
func replayHandshake(c Case) Result {
	res := Result{N: c.N, Cfg: c.Cfg}
	r := &rec{}
	ln, err := net.Listen("tcp", "127.0.0.1:0")
	if err != nil {
		res.Note = "listen: " + err.Error()
		return res
	}
	defer ln.Close()
	var conns int32
	go func() {
		for {
			cn, err := ln.Accept()
			if err != nil {
				return
			}
			n := int(atomic.AddInt32(&conns, 1))
			go func(cn net.Conn, n int) {
				dec := json.NewDecoder(bufio.NewReader(cn))
				var m map[string]interface{}
				cn.SetReadDeadline(time.Now().Add(3 * time.Second))
				if dec.Decode(&m) != nil {
					cn.Close()
					return
				}
				cn.SetReadDeadline(time.Time{})
				sid := fmt.Sprintf("5e551041-0000-4000-8000-%012x", n)
				if n == 1 {
					r.log(Event{K: "badhs", N: n, Res: c.Cfg.Fault})
					if c.Cfg.Fault == "negotiating-empty" { // a negotiation that offers nothing, spelled out
						fmt.Fprintf(cn, `{"id":%q,"from":"postmaster@example.com/srv","state":"negotiating","compressionOptions":[],"encryptionOptions":[]}`+"\n", sid)
					} else {
						fmt.Fprintf(cn, `{"id":%q,"from":"postmaster@example.com/srv","to":"cli@example.com/i","state":%q}`+"\n", sid, c.Cfg.Fault)
					}
				} else {
					// (recorded before it is written: the client may return from Establish the moment it reads it)
					r.log(Event{K: "session", N: n})
					defer r.log(Event{K: "released", N: n})
					fmt.Fprintf(cn, `{"id":%q,"from":"postmaster@example.com/srv","to":"cli@example.com/i","state":"established"}`+"\n", sid)
				}
				for dec.Decode(&m) == nil {
					if st, _ := m["state"].(string); st == "finishing" {
						fmt.Fprintf(cn, `{"id":%q,"from":"postmaster@example.com/srv","state":"finished"}`+"\n", sid)
						break
					}
				}
				cn.Close()
			}(cn, n)
		}
	}()
	addr := ln.Addr()
	cfg := lime.NewClientConfig()
	cfg.Node = lime.Node{Identity: lime.Identity{Name: "cli", Domain: "example.com"}, Instance: "i"}
	cfg.NewTransport = func(ctx context.Context) (lime.Transport, error) {
		if ctx.Value(markKey{}) == nil {
			return nil, errors.New("only Establish gets a connection in this case") // the listener's own attempts
		}
		return lime.DialTcp(ctx, addr, &lime.TCPConfig{})
	}
	cfg.Authenticator = func([]lime.AuthenticationScheme, lime.Authentication) lime.Authentication {
		return &lime.GuestAuthentication{}
	}
	client := lime.NewClient(cfg, &lime.EnvelopeMux{})
	ctx, cancel := context.WithTimeout(context.WithValue(context.Background(), markKey{}, true), 4*time.Second)
	err = client.Establish(ctx)
	cancel()
	if err == nil {
		r.log(Event{K: "hlret", Res: "nil"})
	} else {
		r.log(Event{K: "hlret", Res: "err"})
	}
	closed := make(chan struct{})
	go func() { _ = client.Close(); close(closed) }()
	endRes := "closed"
	select {
	case <-closed:
	case <-time.After(8 * time.Second):
		endRes = "close-hangs"
	}
	waitFor(func() bool { return r.count("released") >= r.count("session") }, 2*time.Second)
	r.log(Event{K: "end", Res: endRes})
	r.mu.Lock()
	res.Actual = append([]Event(nil), r.evs...)
	r.mu.Unlock()
	return res
}

// replayPing: a Client made with ClientBuilder.AutoReplyPings is sent a ping request by the scripted
// server; what it answers must be a response the library itself can decode, correlated with the
// request and carrying the ping resource with its type (C11: "the built-in ping auto-reply").
func replayPing(c Case) Result {
	res := Result{N: c.N, Cfg: c.Cfg}
	r := &rec{}
	ln, err := net.Listen("tcp", "127.0.0.1:0")
	if err != nil {
		res.Note = "listen: " + err.Error()
		return res
	}
	defer ln.Close()
	go func() {
		for {
			cn, err := ln.Accept()
			if err != nil {
				return
			}
			go func(cn net.Conn) {
				defer cn.Close()
				br := bufio.NewReader(cn)
				line, err := br.ReadBytes('\n')
				if err != nil && len(line) == 0 {
					return
				}
				sid := "5e551041-0000-4000-8000-0000000000aa"
				fmt.Fprintf(cn, `{"id":%q,"from":"postmaster@example.com/srv","to":"cli@example.com/i","state":"established"}`+"\n", sid)
				r.log(Event{K: "session", N: 1})
				defer r.log(Event{K: "released", N: 1})
				fmt.Fprintf(cn, `{"id":"ping-1","from":"postmaster@example.com/srv","pp":"watch@example.com/dog","to":"cli@example.com/i","method":"get","uri":"/ping"}`+"\n")
				cn.SetReadDeadline(time.Now().Add(12 * time.Second))
				dec := json.NewDecoder(br)
				for {
					var raw json.RawMessage
					if err := dec.Decode(&raw); err != nil {
						return
					}
					var m map[string]interface{}
					if json.Unmarshal(raw, &m) != nil {
						continue
					}
					if st, _ := m["state"].(string); st == "finishing" {
						fmt.Fprintf(cn, `{"id":%q,"from":"postmaster@example.com/srv","state":"finished"}`+"\n", sid)
						return
					}
					if id, _ := m["id"].(string); id != "ping-1" {
						continue
					}
					why := ""
					var rc lime.ResponseCommand
					switch {
					case json.Unmarshal(raw, &rc) != nil:
						why = "undecodable"
					case rc.Status != lime.CommandStatusSuccess || rc.Method != lime.CommandMethodGet:
						why = "status-or-method"
					case rc.Resource == nil || rc.Type == nil || rc.Type.String() != "application/vnd.lime.ping+json":
						why = "resource-or-type"
					case rc.To.String() != "watch@example.com/dog": // the request's sender is its delegation node
						why = "addressed-to-" + rc.To.String()
					}
					if why == "" {
						r.log(Event{K: "pingreply", Res: "ok"})
					} else {
						r.log(Event{K: "pingreply", Res: why})
					}
				}
			}(cn)
		}
	}()
	b := lime.NewClientBuilder().Name("cli").Domain("example.com").Instance("i").
		UseTCP(ln.Addr(), &lime.TCPConfig{}).GuestAuthentication().AutoReplyPings()
	client := b.Build()
	waitFor(func() bool { return r.count("pingreply") >= 1 }, 3*time.Second)
	if r.count("pingreply") == 0 {
		r.log(Event{K: "pingreply", Res: "none"})
	}
	closed := make(chan struct{})
	go func() { _ = client.Close(); close(closed) }()
	endRes := "closed"
	select {
	case <-closed:
	case <-time.After(8 * time.Second):
		endRes = "close-hangs"
	}
	waitFor(func() bool { return r.count("released") >= r.count("session") }, 2*time.Second)
	r.log(Event{K: "end", Res: endRes})
	r.mu.Lock()
	res.Actual = append([]Event(nil), r.evs...)
	r.mu.Unlock()
	return res
}

var errHang = errors.New("the call did not return 3 s after its context had ended")

// sendGuarded: SendMessage under a deadline; a call that ignores its context is abandoned (and reported)
func sendGuarded(client *lime.Client, m *lime.Message, d time.Duration) error {
	ctx, cancel := context.WithTimeout(context.Background(), d)
	defer cancel()
	done := make(chan error, 1)
	go func() { done <- client.SendMessage(ctx, m) }()
	select {
	case err := <-done:
		return err
	case <-time.After(d + 3*time.Second):
		return errHang
	}
}

// replaySrvPing: a Server made with ServerBuilder.AutoReplyPings and a request handler of its own, driven by
// a raw client: a ping that carries a delegation node is answered to that node with the ping resource and its
// type (C11); a request for another resource whose path merely starts like the ping's goes to the
// application's handler, once, and is not answered by the ping handler (C04); a request without uri does not
// bring the process down (C02).
func replaySrvPing(c Case) Result {
	res := Result{N: c.N, Cfg: c.Cfg}
	r := &rec{}
	var srv *lime.Server
	var addr *net.TCPAddr
	started := false
	done := make(chan error, 1)
	for try := 0; try < 30 && !started; try++ {
		l, err := net.Listen("tcp", "127.0.0.1:0")
		if err != nil {
			continue
		}
		addr = l.Addr().(*net.TCPAddr)
		l.Close()
		b := lime.NewServerBuilder().Name("postmaster").Domain("example.com").Instance("srv").
			ListenTCP(addr, &lime.TCPConfig{}).EnableGuestAuthentication().AutoReplyPings().
			RequestCommandsHandlerFunc(func(ctx context.Context, cmd *lime.RequestCommand, s lime.Sender) error {
				path := ""
				if cmd.URI != nil {
					path = cmd.URI.Path()
				}
				r.log(Event{K: "ownreq", Tag: path})
				return nil
			})
		srv = b.Build()
		go func(s *lime.Server) { done <- s.ListenAndServe() }(srv)
		select {
		case <-done:
		case <-time.After(40 * time.Millisecond):
			started = true
		}
	}
	if !started {
		res.Note = "server did not start"
		return res
	}
	defer srv.Close()
	var hsN int32
	handshake := func() (net.Conn, *json.Decoder, string, error) {
		k := atomic.AddInt32(&hsN, 1)
		cn, err := net.DialTimeout("tcp", addr.String(), 2*time.Second)
		if err != nil {
			return nil, nil, "", err
		}
		cn.SetDeadline(time.Now().Add(4 * time.Second))
		dec := json.NewDecoder(bufio.NewReader(cn))
		var m map[string]interface{}
		fmt.Fprintf(cn, `{"state":"new"}`+"\n")
		if err := dec.Decode(&m); err != nil {
			cn.Close()
			return nil, nil, "", err
		}
		sid, _ := m["id"].(string)
		if st, _ := m["state"].(string); st == "negotiating" { // take the cleartext options, wait for the confirmation
			fmt.Fprintf(cn, `{"id":%q,"state":"negotiating","encryption":"none","compression":"none"}`+"\n", sid)
			if err := dec.Decode(&m); err != nil {
				cn.Close()
				return nil, nil, "", err
			}
			if err := dec.Decode(&m); err != nil { // the authenticating request
				cn.Close()
				return nil, nil, "", err
			}
		}
		me := fmt.Sprintf("0f1b2c3d-4e5f-4a6b-8c7d-9e0f1a2b3c%02x@example.com/home", k)
		fmt.Fprintf(cn, `{"id":%q,"from":%q,"state":"authenticating","scheme":"guest","authentication":{}}`+"\n", sid, me)
		if err := dec.Decode(&m); err != nil {
			cn.Close()
			return nil, nil, "", err
		}
		if st, _ := m["state"].(string); st != "established" {
			cn.Close()
			return nil, nil, "", fmt.Errorf("state %v %v", m["state"], m["reason"])
		}
		return cn, dec, me, nil
	}
	cn, dec, me, err := handshake()
	if err != nil {
		res.Note = "handshake: " + err.Error()
		return res
	}
	r.log(Event{K: "session", N: 1})
	r.log(Event{K: "released", N: 1}) // (this harness does not look at connections)
	// 1. a ping on behalf of somebody else
	fmt.Fprintf(cn, `{"id":"p1","from":%q,"pp":"deleg@example.com/x","method":"get","uri":"/ping"}`+"\n", me)
	why := "none"
	for {
		var raw json.RawMessage
		cn.SetReadDeadline(time.Now().Add(1500 * time.Millisecond))
		if err := dec.Decode(&raw); err != nil {
			break
		}
		var m map[string]interface{}
		if json.Unmarshal(raw, &m) != nil || m["id"] != "p1" {
			continue
		}
		var rc lime.ResponseCommand
		switch {
		case json.Unmarshal(raw, &rc) != nil:
			why = "undecodable"
		case rc.Status != lime.CommandStatusSuccess || rc.Method != lime.CommandMethodGet:
			why = "status-or-method"
		case rc.Resource == nil || rc.Type == nil || rc.Type.String() != "application/vnd.lime.ping+json":
			why = "resource-or-type"
		case rc.To.String() != "deleg@example.com/x":
			why = "addressed-to-" + rc.To.String()
		default:
			why = "ok"
		}
		break
	}
	r.log(Event{K: "pingreply", Res: why})
	// 2. not a ping: the application's business
	fmt.Fprintf(cn, `{"id":"p2","from":%q,"method":"get","uri":"/pings"}`+"\n", me)
	waitFor(func() bool { return r.has("ownreq", "/pings") }, 1500*time.Millisecond)
	own := "ok"
	if n := func() int {
		r.mu.Lock()
		defer r.mu.Unlock()
		k := 0
		for _, e := range r.evs {
			if e.K == "ownreq" && e.Tag == "/pings" {
				k++
			}
		}
		return k
	}(); n != 1 {
		own = fmt.Sprintf("delivered-%d-times", n)
	}
	hij := "n"
	cn.SetReadDeadline(time.Now().Add(300 * time.Millisecond))
	for {
		var m map[string]interface{}
		if err := dec.Decode(&m); err != nil {
			break
		}
		if m["id"] == "p2" {
			hij = "y"
		}
	}
	if hij == "y" {
		own += "+answered-by-somebody"
	}
	r.log(Event{K: "srvown", Res: own})
	cn.Close()
	// 2b. several sessions pinging at once: every reply goes to the session that asked, with its id and node (C17)
	{
		var wg sync.WaitGroup
		var crossed int32
		for w := 0; w < 3; w++ {
			wg.Add(1)
			go func(w int) {
				defer wg.Done()
				cw, dw, mw, err := handshake()
				if err != nil {
					return
				}
				defer cw.Close()
				go func() {
					for i := 0; i < 150; i++ {
						fmt.Fprintf(cw, `{"id":"s%d-%d","from":%q,"method":"get","uri":"/ping"}`+"\n", w, i, mw)
					}
				}()
				for i := 0; i < 150; i++ {
					var m map[string]interface{}
					cw.SetReadDeadline(time.Now().Add(2 * time.Second))
					if err := dw.Decode(&m); err != nil {
						atomic.AddInt32(&crossed, 1) // a reply that never came
						return
					}
					id, _ := m["id"].(string)
					to, _ := m["to"].(string)
					if !strings.HasPrefix(id, fmt.Sprintf("s%d-", w)) || (to != "" && to != mw) {
						atomic.AddInt32(&crossed, 1)
					}
				}
			}(w)
		}
		wg.Wait()
		res := "own"
		if atomic.LoadInt32(&crossed) > 0 {
			res = "crossed"
		}
		r.log(Event{K: "srvstorm", Res: res})
	}
	// 3. a request without uri (on a session of its own: it is not a valid envelope and ends that session)
	if cn2, _, _, err := handshake(); err == nil {
		fmt.Fprintf(cn2, `{"id":"j1","method":"get"}`+"\n")
		time.Sleep(150 * time.Millisecond)
		cn2.Close()
	}
	alive := "n"
	if cn3, _, _, err := handshake(); err == nil {
		alive = "y"
		cn3.Close()
	}
	r.log(Event{K: "srvalive", Res: alive})
	r.log(Event{K: "end", Res: "closed"})
	r.mu.Lock()
	res.Actual = append([]Event(nil), r.evs...)
	r.mu.Unlock()
	return res
}

func allStacks() string {
	buf := make([]byte, 1<<22)
	return string(buf[:runtime.Stack(buf, true)])
}
