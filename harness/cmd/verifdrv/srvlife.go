package main

import (
	"bufio"
	"bytes"
	"encoding/json"
	"flag"
	"fmt"
	"io"
	"log"
	"os"
	"os/exec"
	"strings"
	"sync"
	"time"

	"verif/harness/srvlife"
	"verif/harness/tr"
)

func init() {
	commands["srvlife"] = srvlifeCmd
	commands["srvlife-one"] = srvlifeOne
}

// srvlifeOne: child process; one case on stdin, events on stdout.
func srvlifeOne(args []string) int {
	log.SetOutput(io.Discard)
	var c srvlife.Case
	if err := json.NewDecoder(os.Stdin).Decode(&c); err != nil {
		fmt.Fprintln(os.Stderr, "bad case:", err)
		return 2
	}
	return srvlife.Run(c)
}

func srvlifeCmd(args []string) int {
	fs := flag.NewFlagSet("srvlife", flag.ExitOnError)
	casesPath := fs.String("cases", "", "ndjson file of generated cases")
	tracePath := fs.String("trace", "", "ndjson trace output")
	resPath := fs.String("results", "", "json summary output")
	workers := fs.Int("workers", 16, "parallel child processes")
	fs.Parse(args)
	f, err := os.Open(*casesPath)
	if err != nil {
		fmt.Fprintln(os.Stderr, err)
		return 2
	}
	defer f.Close()
	var cases []srvlife.Case
	var raws [][]byte
	sc := bufio.NewScanner(f)
	sc.Buffer(make([]byte, 1<<20), 1<<26)
	for sc.Scan() {
		var c srvlife.Case
		if err := json.Unmarshal(sc.Bytes(), &c); err != nil {
			fmt.Fprintln(os.Stderr, "bad case line:", err)
			return 2
		}
		cases = append(cases, c)
		raws = append(raws, append([]byte(nil), sc.Bytes()...))
	}
	self, _ := os.Executable()
	type outcome struct {
		events  []srvlife.Event
		crashed string
		note    string
	}
	results := make([]outcome, len(cases))
	var wg sync.WaitGroup
	ch := make(chan int)
	for i := 0; i < *workers; i++ {
		wg.Add(1)
		go func() {
			defer wg.Done()
			for idx := range ch {
				cmd := exec.Command(self, "srvlife-one")
				cmd.Stdin = bytes.NewReader(raws[idx])
				var ob, eb bytes.Buffer
				cmd.Stdout = &ob
				cmd.Stderr = &eb
				done := make(chan error, 1)
				if err := cmd.Start(); err != nil {
					results[idx].note = "start: " + err.Error()
					continue
				}
				go func() { done <- cmd.Wait() }()
				var werr error
				select {
				case werr = <-done:
				case <-time.After(60 * time.Second):
					cmd.Process.Kill()
					werr = <-done
					results[idx].note = "timeout"
				}
				dec := json.NewDecoder(&ob)
				for {
					var e srvlife.Event
					if err := dec.Decode(&e); err != nil {
						break
					}
					results[idx].events = append(results[idx].events, e)
				}
				if werr != nil && results[idx].note == "" {
					first := "exit"
					for _, l := range strings.Split(eb.String(), "\n") {
						if strings.HasPrefix(l, "panic:") || strings.HasPrefix(l, "fatal error:") {
							first = l
							break
						}
					}
					results[idx].crashed = first
				}
			}
		}()
	}
	for i := range cases {
		ch <- i
	}
	close(ch)
	wg.Wait()
	w, err := tr.NewWriter(*tracePath)
	if err != nil {
		fmt.Fprintln(os.Stderr, err)
		return 2
	}
	type cfgLine struct {
		K string `json:"k"`
		N int    `json:"n"`
	}
	type rec struct {
		N      int             `json:"n"`
		Actual []srvlife.Event `json:"actual"`
		Note   string          `json:"note,omitempty"`
	}
	sum := struct {
		Cases   int   `json:"cases"`
		Crashed int   `json:"crashed"`
		Notes   int   `json:"notes"`
		Records []rec `json:"records"`
	}{Cases: len(cases)}
	for i, r := range results {
		evs := r.events
		if r.crashed != "" {
			sum.Crashed++
			evs = append(evs, srvlife.Event{K: "panic", Res: r.crashed}, srvlife.Event{K: "end", Res: "crash"})
		} else {
			hasEnd := false
			for _, e := range evs {
				if e.K == "end" {
					hasEnd = true
				}
			}
			if !hasEnd {
				r.note += ";no-end"
			}
		}
		if r.note != "" {
			sum.Notes++
		}
		vs := []interface{}{cfgLine{K: "cfg", N: cases[i].N}}
		for _, e := range evs {
			vs = append(vs, e)
		}
		w.WriteAll(vs...)
		sum.Records = append(sum.Records, rec{N: cases[i].N, Actual: evs, Note: r.note})
	}
	if err := w.Close(); err != nil {
		fmt.Fprintln(os.Stderr, err)
		return 2
	}
	b, _ := json.Marshal(sum)
	if err := os.WriteFile(*resPath, b, 0o644); err != nil {
		fmt.Fprintln(os.Stderr, err)
		return 2
	}
	fmt.Printf("srvlife: cases=%d crashed=%d notes=%d\n", sum.Cases, sum.Crashed, sum.Notes)
	return 0
}
