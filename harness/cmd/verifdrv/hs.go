package main

import (
	"bufio"
	"bytes"
	"encoding/json"
	"flag"
	"fmt"
	"io"
	"log"
	"os"
	"os/exec"
	"runtime/debug"
	"strings"
	"sync"

	"verif/harness/hs"
	"verif/harness/tr"
)

func init() {
	commands["hs-server"] = hsServer
	commands["hs-worker"] = hsWorker
}

func replayOne(c hs.Case) *hs.Result {
	switch c.Cfg.Flavour {
	case "chan":
		r := hs.ReplayChan(c)
		return &r
	case "client":
		r := hs.ReplayClient(c)
		return &r
	}
	return hs.ReplayServer(c)
}

func runInProcess(cases []hs.Case, results []*hs.Result, workers int) {
	var wg sync.WaitGroup
	ch := make(chan int)
	for i := 0; i < workers; i++ {
		wg.Add(1)
		go func() {
			defer wg.Done()
			for idx := range ch {
				results[idx] = replayOne(cases[idx])
			}
		}()
	}
	for i := range cases {
		ch <- i
	}
	close(ch)
	wg.Wait()
	hs.Shutdown()
}

// hsWorker: child of runIsolated. Reads one case per stdin line; answers each
// with one line: the final result, or "deferred" for server-flavour cases whose
// result is final only at shutdown (printed after stdin is closed).
func hsWorker(args []string) int {
	log.SetOutput(io.Discard)
	debug.SetGCPercent(-1)
	debug.SetMemoryLimit(640 << 20) // (times 32 workers: the collector runs when a worker gets there)
	in := bufio.NewScanner(os.Stdin)
	in.Buffer(make([]byte, 1<<20), 1<<26)
	out := bufio.NewWriter(os.Stdout)
	var deferred []*hs.Result
	for in.Scan() {
		var c hs.Case
		if err := json.Unmarshal(in.Bytes(), &c); err != nil {
			return 2
		}
		r := replayOne(c)
		if c.Cfg.Flavour == "server" {
			deferred = append(deferred, r)
			out.WriteString("deferred\n")
		} else {
			b, _ := json.Marshal(r)
			out.Write(b)
			out.WriteByte('\n')
		}
		out.Flush()
	}
	hs.Shutdown()
	for _, r := range deferred {
		b, _ := json.Marshal(r)
		out.Write(b)
		out.WriteByte('\n')
	}
	out.Flush()
	return 0
}

type child struct {
	cmd    *exec.Cmd
	stdin  io.WriteCloser
	stdout *bufio.Scanner
	stderr *bytes.Buffer
}

func startChild() (*child, error) {
	self, err := os.Executable()
	if err != nil {
		return nil, err
	}
	cmd := exec.Command(self, "hs-worker")
	stdin, _ := cmd.StdinPipe()
	stdout, _ := cmd.StdoutPipe()
	var eb bytes.Buffer
	cmd.Stderr = &eb
	if err := cmd.Start(); err != nil {
		return nil, err
	}
	sc := bufio.NewScanner(stdout)
	sc.Buffer(make([]byte, 1<<20), 1<<26)
	return &child{cmd: cmd, stdin: stdin, stdout: sc, stderr: &eb}, nil
}

func crashResult(c hs.Case, why string) *hs.Result {
	return &hs.Result{N: c.N, Cfg: c.Cfg, Note: "process crash: " + why,
		Actual: []tr.Event{{K: "panic", Res: "process-crash: " + why}, {K: "end", Res: "crash"}}}
}

func firstPanicLine(stderr string) string {
	for _, l := range strings.Split(stderr, "\n") {
		if strings.HasPrefix(l, "panic:") || strings.HasPrefix(l, "fatal error:") {
			return l
		}
	}
	return "child exited"
}

// runIsolated replays the cases in child processes, one case at a time per
// child. A child that dies is charged to the case it was replaying.
func runIsolated(cases []hs.Case, results []*hs.Result, nproc int) {
	var wg sync.WaitGroup
	queue := make(chan int, len(cases))
	for i := range cases {
		queue <- i
	}
	close(queue)
	var mu sync.Mutex
	var singles []int // deferred cases lost with a crashed child: re-run alone
	worker := func(src <-chan int, alone bool) {
		defer wg.Done()
		var ch *child
		var pending []int // deferred, result not yet received
		finish := func() {
			if ch == nil {
				return
			}
			ch.stdin.Close()
			for _, idx := range pending {
				if ch.stdout.Scan() {
					var r hs.Result
					if json.Unmarshal(ch.stdout.Bytes(), &r) == nil {
						results[idx] = &r
						continue
					}
				}
				if alone {
					results[idx] = crashResult(cases[idx], firstPanicLine(ch.stderr.String()))
				} else {
					mu.Lock()
					singles = append(singles, idx)
					mu.Unlock()
				}
			}
			pending = nil
			ch.cmd.Wait()
			ch = nil
		}
		for idx := range src {
			if ch == nil {
				var err error
				if ch, err = startChild(); err != nil {
					results[idx] = &hs.Result{N: cases[idx].N, Cfg: cases[idx].Cfg, Note: "cannot start child: " + err.Error()}
					continue
				}
			}
			b, _ := json.Marshal(cases[idx])
			_, werr := ch.stdin.Write(append(b, '\n'))
			ok := werr == nil && ch.stdout.Scan()
			if ok {
				line := ch.stdout.Text()
				if line == "deferred" {
					pending = append(pending, idx)
				} else {
					var r hs.Result
					if json.Unmarshal([]byte(line), &r) == nil {
						results[idx] = &r
					} else {
						ok = false
					}
				}
			}
			if !ok {
				ch.stdin.Close()
				ch.cmd.Wait()
				results[idx] = crashResult(cases[idx], firstPanicLine(ch.stderr.String()))
				if !alone {
					mu.Lock()
					singles = append(singles, pending...)
					mu.Unlock()
				} else {
					for _, p := range pending {
						results[p] = crashResult(cases[p], firstPanicLine(ch.stderr.String()))
					}
				}
				pending = nil
				ch = nil
			}
			if alone {
				finish()
			}
		}
		finish()
	}
	for i := 0; i < nproc; i++ {
		wg.Add(1)
		go worker(queue, false)
	}
	wg.Wait()
	if len(singles) > 0 {
		q2 := make(chan int, len(singles))
		for _, i := range singles {
			q2 <- i
		}
		close(q2)
		for i := 0; i < nproc; i++ {
			wg.Add(1)
			go worker(q2, true)
		}
		wg.Wait()
	}
	for i := range results {
		if results[i] == nil {
			results[i] = &hs.Result{N: cases[i].N, Cfg: cases[i].Cfg, Note: "no result"}
		}
	}
}

type cfgLine struct {
	K string `json:"k"`
	N int    `json:"n"`
	hs.Cfg
	Match bool `json:"match"`
}

// hsServer replays server-handshake cases (one JSON case per input line).
func hsServer(args []string) int {
	fs := flag.NewFlagSet("hs-server", flag.ExitOnError)
	casesPath := fs.String("cases", "", "ndjson file of generated cases")
	tracePath := fs.String("trace", "", "ndjson trace output (all recorded histories)")
	resPath := fs.String("results", "", "json summary output")
	workers := fs.Int("workers", 32, "parallel replays")
	quiet := fs.Bool("quiet", true, "discard the library's log output")
	isolate := fs.Bool("isolate", false, "replay in child processes so that a process crash is pinned on its case")
	fs.Parse(args)
	if *quiet {
		log.SetOutput(io.Discard)
	}
	// a connection the server forgot to close must stay open for the length of
	// the case: keep the collector from finalising it behind our back
	debug.SetGCPercent(-1)
	debug.SetMemoryLimit(3 << 30)
	f, err := os.Open(*casesPath)
	if err != nil {
		fmt.Fprintln(os.Stderr, err)
		return 2
	}
	defer f.Close()
	var cases []hs.Case
	sc := bufio.NewScanner(f)
	sc.Buffer(make([]byte, 1<<20), 1<<26)
	n := 0
	for sc.Scan() {
		var c hs.Case
		if err := json.Unmarshal(sc.Bytes(), &c); err != nil {
			fmt.Fprintln(os.Stderr, "bad case line:", err)
			return 2
		}
		n++
		if c.N == 0 {
			c.N = n
		}
		cases = append(cases, c)
	}
	w, err := tr.NewWriter(*tracePath)
	if err != nil {
		fmt.Fprintln(os.Stderr, err)
		return 2
	}
	results := make([]*hs.Result, len(cases))
	if *isolate {
		runIsolated(cases, results, *workers)
	} else {
		runInProcess(cases, results, *workers)
	}
	for i, r := range results {
		vs := []interface{}{cfgLine{K: "cfg", N: cases[i].N, Cfg: cases[i].Cfg, Match: r.Match}}
		for _, e := range r.Actual {
			vs = append(vs, e)
		}
		w.WriteAll(vs...)
	}
	if err := w.Close(); err != nil {
		fmt.Fprintln(os.Stderr, err)
		return 2
	}
	type mismatch struct {
		N        int        `json:"n"`
		Cfg      hs.Cfg     `json:"cfg"`
		Expected []tr.Event `json:"expected"`
		Actual   []tr.Event `json:"actual"`
		Note     string     `json:"note,omitempty"`
	}
	sum := struct {
		Cases      int        `json:"cases"`
		Matched    int        `json:"matched"`
		Notes      int        `json:"notes"`
		LeakCensus int        `json:"leak_census"`
		Crashed    int        `json:"crashed"`
		Mismatches []mismatch `json:"mismatches"`
	}{Cases: len(cases), LeakCensus: hs.LeakCensus}
	for i, r := range results {
		if r.Match {
			sum.Matched++
		} else if len(sum.Mismatches) < 2000 {
			sum.Mismatches = append(sum.Mismatches, mismatch{N: r.N, Cfg: r.Cfg, Expected: cases[i].Obs, Actual: r.Actual, Note: r.Note})
		}
		if r.Note != "" {
			sum.Notes++
		}
		if strings.HasPrefix(r.Note, "process crash") {
			sum.Crashed++
		}
	}
	b, _ := json.MarshalIndent(sum, "", " ")
	if err := os.WriteFile(*resPath, b, 0o644); err != nil {
		fmt.Fprintln(os.Stderr, err)
		return 2
	}
	fmt.Printf("hs-server: cases=%d matched=%d mismatched=%d notes=%d leak_census=%d\n", sum.Cases, sum.Matched, sum.Cases-sum.Matched, sum.Notes, sum.LeakCensus)
	return 0
}
