package main

import (
	"bufio"
	"encoding/json"
	"flag"
	"fmt"
	"io"
	"log"
	"os"
	"runtime/debug"
	"sync"

	"verif/harness/hs"
	"verif/harness/tr"
)

func init() {
	commands["hs-server"] = hsServer
}

type cfgLine struct {
	K string `json:"k"`
	N int    `json:"n"`
	hs.Cfg
	Match bool `json:"match"`
}

// hsServer replays server-handshake cases (one JSON case per input line).
func hsServer(args []string) int {
	fs := flag.NewFlagSet("hs-server", flag.ExitOnError)
	casesPath := fs.String("cases", "", "ndjson file of generated cases")
	tracePath := fs.String("trace", "", "ndjson trace output (all recorded histories)")
	resPath := fs.String("results", "", "json summary output")
	workers := fs.Int("workers", 32, "parallel replays")
	quiet := fs.Bool("quiet", true, "discard the library's log output")
	fs.Parse(args)
	if *quiet {
		log.SetOutput(io.Discard)
	}
	// a connection the server forgot to close must stay open for the length of
	// the case: keep the collector from finalising it behind our back
	debug.SetGCPercent(-1)
	debug.SetMemoryLimit(6 << 30)
	f, err := os.Open(*casesPath)
	if err != nil {
		fmt.Fprintln(os.Stderr, err)
		return 2
	}
	defer f.Close()
	var cases []hs.Case
	sc := bufio.NewScanner(f)
	sc.Buffer(make([]byte, 1<<20), 1<<26)
	n := 0
	for sc.Scan() {
		var c hs.Case
		if err := json.Unmarshal(sc.Bytes(), &c); err != nil {
			fmt.Fprintln(os.Stderr, "bad case line:", err)
			return 2
		}
		n++
		if c.N == 0 {
			c.N = n
		}
		cases = append(cases, c)
	}
	w, err := tr.NewWriter(*tracePath)
	if err != nil {
		fmt.Fprintln(os.Stderr, err)
		return 2
	}
	results := make([]*hs.Result, len(cases))
	var wg sync.WaitGroup
	ch := make(chan int)
	for i := 0; i < *workers; i++ {
		wg.Add(1)
		go func() {
			defer wg.Done()
			for idx := range ch {
				c := cases[idx]
				if c.Cfg.Flavour == "chan" {
					r := hs.ReplayChan(c)
					results[idx] = &r
				} else {
					results[idx] = hs.ReplayServer(c)
				}
			}
		}()
	}
	for i := range cases {
		ch <- i
	}
	close(ch)
	wg.Wait()
	hs.Shutdown()
	for i, r := range results {
		vs := []interface{}{cfgLine{K: "cfg", N: cases[i].N, Cfg: cases[i].Cfg, Match: r.Match}}
		for _, e := range r.Actual {
			vs = append(vs, e)
		}
		w.WriteAll(vs...)
	}
	if err := w.Close(); err != nil {
		fmt.Fprintln(os.Stderr, err)
		return 2
	}
	type mismatch struct {
		N        int        `json:"n"`
		Cfg      hs.Cfg     `json:"cfg"`
		Expected []tr.Event `json:"expected"`
		Actual   []tr.Event `json:"actual"`
		Note     string     `json:"note,omitempty"`
	}
	sum := struct {
		Cases      int        `json:"cases"`
		Matched    int        `json:"matched"`
		Notes      int        `json:"notes"`
		LeakCensus int        `json:"leak_census"`
		Mismatches []mismatch `json:"mismatches"`
	}{Cases: len(cases), LeakCensus: hs.LeakCensus}
	for i, r := range results {
		if r.Match {
			sum.Matched++
		} else if len(sum.Mismatches) < 2000 {
			sum.Mismatches = append(sum.Mismatches, mismatch{N: r.N, Cfg: r.Cfg, Expected: cases[i].Obs, Actual: r.Actual, Note: r.Note})
		}
		if r.Note != "" {
			sum.Notes++
		}
	}
	b, _ := json.MarshalIndent(sum, "", " ")
	if err := os.WriteFile(*resPath, b, 0o644); err != nil {
		fmt.Fprintln(os.Stderr, err)
		return 2
	}
	fmt.Printf("hs-server: cases=%d matched=%d mismatched=%d notes=%d leak_census=%d\n", sum.Cases, sum.Matched, sum.Cases-sum.Matched, sum.Notes, sum.LeakCensus)
	return 0
}
