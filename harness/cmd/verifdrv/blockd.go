package main

import (
	"bufio"
	"encoding/json"
	"flag"
	"fmt"
	"io"
	"log"
	"os"
	"sync"

	"verif/harness/blockd"
	"verif/harness/tr"
)

func init() { commands["block"] = blockCmd }

func blockCmd(args []string) int {
	fs := flag.NewFlagSet("block", flag.ExitOnError)
	casesPath := fs.String("cases", "", "ndjson file of cases")
	tracePath := fs.String("trace", "", "ndjson trace output")
	resPath := fs.String("results", "", "json summary output")
	workers := fs.Int("workers", 40, "parallel cases")
	fs.Parse(args)
	log.SetOutput(io.Discard)
	f, err := os.Open(*casesPath)
	if err != nil {
		fmt.Fprintln(os.Stderr, err)
		return 2
	}
	defer f.Close()
	var cases []blockd.Case
	sc := bufio.NewScanner(f)
	for sc.Scan() {
		var c blockd.Case
		if err := json.Unmarshal(sc.Bytes(), &c); err != nil {
			fmt.Fprintln(os.Stderr, "bad case line:", err)
			return 2
		}
		cases = append(cases, c)
	}
	results := make([]blockd.Result, len(cases))
	var wg sync.WaitGroup
	ch := make(chan int)
	for i := 0; i < *workers; i++ {
		wg.Add(1)
		go func() {
			defer wg.Done()
			for idx := range ch {
				results[idx] = blockd.Replay(cases[idx])
			}
		}()
	}
	for i := range cases {
		ch <- i
	}
	close(ch)
	wg.Wait()
	w, err := tr.NewWriter(*tracePath)
	if err != nil {
		fmt.Fprintln(os.Stderr, err)
		return 2
	}
	type cfgLine struct {
		K string `json:"k"`
		N int    `json:"n"`
	}
	notes, matched := 0, 0
	for i, r := range results {
		vs := []interface{}{cfgLine{K: "cfg", N: cases[i].N}}
		if r.Actual == nil {
			notes++
		}
		if r.Matched {
			matched++
		}
		for _, e := range r.Actual {
			vs = append(vs, e)
		}
		w.WriteAll(vs...)
	}
	if err := w.Close(); err != nil {
		fmt.Fprintln(os.Stderr, err)
		return 2
	}
	b, _ := json.Marshal(struct {
		Cases   int             `json:"cases"`
		Matched int             `json:"matched"`
		Notes   int             `json:"notes"`
		Results []blockd.Result `json:"results"`
	}{len(cases), matched, notes, results})
	if err := os.WriteFile(*resPath, b, 0o644); err != nil {
		fmt.Fprintln(os.Stderr, err)
		return 2
	}
	fmt.Printf("block: cases=%d matched=%d setup_failures=%d\n", len(cases), matched, notes)
	return 0
}
