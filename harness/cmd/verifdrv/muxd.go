package main

import (
	"bufio"
	"encoding/json"
	"flag"
	"fmt"
	"io"
	"log"
	"os"
	"sync"

	"verif/harness/muxd"
	"verif/harness/tr"
)

func init() { commands["mux"] = muxCmd }

func muxCmd(args []string) int {
	fs := flag.NewFlagSet("mux", flag.ExitOnError)
	casesPath := fs.String("cases", "", "ndjson file of generated cases")
	tracePath := fs.String("trace", "", "ndjson trace output")
	resPath := fs.String("results", "", "json summary output")
	workers := fs.Int("workers", 32, "parallel replays")
	fs.Parse(args)
	log.SetOutput(io.Discard)
	f, err := os.Open(*casesPath)
	if err != nil {
		fmt.Fprintln(os.Stderr, err)
		return 2
	}
	defer f.Close()
	var cases []muxd.Case
	sc := bufio.NewScanner(f)
	sc.Buffer(make([]byte, 1<<20), 1<<26)
	for sc.Scan() {
		var c muxd.Case
		if err := json.Unmarshal(sc.Bytes(), &c); err != nil {
			fmt.Fprintln(os.Stderr, "bad case line:", err)
			return 2
		}
		cases = append(cases, c)
	}
	results := make([]muxd.Result, len(cases))
	var wg sync.WaitGroup
	ch := make(chan int)
	for i := 0; i < *workers; i++ {
		wg.Add(1)
		go func() {
			defer wg.Done()
			for idx := range ch {
				results[idx] = muxd.Replay(cases[idx])
			}
		}()
	}
	for i := range cases {
		ch <- i
	}
	close(ch)
	wg.Wait()
	w, err := tr.NewWriter(*tracePath)
	if err != nil {
		fmt.Fprintln(os.Stderr, err)
		return 2
	}
	type cfgLine struct {
		K string `json:"k"`
		N int    `json:"n"`
		muxd.Cfg
	}
	type mismatch struct {
		N        int          `json:"n"`
		Cfg      muxd.Cfg     `json:"cfg"`
		Inbox    []muxd.In    `json:"inbox"`
		Expected []muxd.Event `json:"expected"`
		Actual   []muxd.Event `json:"actual"`
		Note     string       `json:"note,omitempty"`
	}
	sum := struct {
		Cases      int        `json:"cases"`
		Matched    int        `json:"matched"`
		Notes      int        `json:"notes"`
		Mismatches []mismatch `json:"mismatches"`
	}{Cases: len(cases)}
	for i, r := range results {
		vs := []interface{}{cfgLine{K: "cfg", N: cases[i].N, Cfg: cases[i].Cfg}}
		for _, e := range r.Actual {
			vs = append(vs, e)
		}
		w.WriteAll(vs...)
		if r.Match {
			sum.Matched++
		} else if len(sum.Mismatches) < 2000 {
			sum.Mismatches = append(sum.Mismatches, mismatch{N: r.N, Cfg: r.Cfg, Inbox: cases[i].Inbox, Expected: cases[i].Obs, Actual: r.Actual, Note: r.Note})
		}
		if r.Note != "" {
			sum.Notes++
		}
	}
	if err := w.Close(); err != nil {
		fmt.Fprintln(os.Stderr, err)
		return 2
	}
	b, _ := json.MarshalIndent(sum, "", " ")
	if err := os.WriteFile(*resPath, b, 0o644); err != nil {
		fmt.Fprintln(os.Stderr, err)
		return 2
	}
	fmt.Printf("mux: cases=%d matched=%d mismatched=%d notes=%d\n", sum.Cases, sum.Matched, sum.Cases-sum.Matched, sum.Notes)
	return 0
}
