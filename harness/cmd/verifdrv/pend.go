package main

import (
	"bufio"
	"encoding/json"
	"flag"
	"fmt"
	"io"
	"log"
	"os"
	"sync"

	"verif/harness/pend"
	"verif/harness/tr"
)

func init() { commands["pend"] = pendCmd }

func pendCmd(args []string) int {
	fs := flag.NewFlagSet("pend", flag.ExitOnError)
	casesPath := fs.String("cases", "", "ndjson file of generated cases")
	tracePath := fs.String("trace", "", "ndjson trace output")
	resPath := fs.String("results", "", "json summary output")
	workers := fs.Int("workers", 16, "parallel replays")
	fs.Parse(args)
	log.SetOutput(io.Discard)
	f, err := os.Open(*casesPath)
	if err != nil {
		fmt.Fprintln(os.Stderr, err)
		return 2
	}
	defer f.Close()
	var cases []pend.Case
	sc := bufio.NewScanner(f)
	sc.Buffer(make([]byte, 1<<20), 1<<26)
	for sc.Scan() {
		var c pend.Case
		if err := json.Unmarshal(sc.Bytes(), &c); err != nil {
			fmt.Fprintln(os.Stderr, "bad case line:", err)
			return 2
		}
		cases = append(cases, c)
	}
	results := make([]pend.Result, len(cases))
	var wg sync.WaitGroup
	ch := make(chan int)
	for i := 0; i < *workers; i++ {
		wg.Add(1)
		go func() {
			defer wg.Done()
			for idx := range ch {
				results[idx] = pend.Replay(cases[idx])
			}
		}()
	}
	for i := range cases {
		ch <- i
	}
	close(ch)
	wg.Wait()
	w, err := tr.NewWriter(*tracePath)
	if err != nil {
		fmt.Fprintln(os.Stderr, err)
		return 2
	}
	type cfgLine struct {
		K string `json:"k"`
		N int    `json:"n"`
	}
	type mismatch struct {
		N        int          `json:"n"`
		Cfg      pend.Cfg     `json:"cfg"`
		Script   []pend.Step  `json:"script"`
		Expected []pend.Event `json:"expected"`
		Actual   []pend.Event `json:"actual"`
		Note     string       `json:"note,omitempty"`
	}
	sum := struct {
		Cases      int        `json:"cases"`
		Matched    int        `json:"matched"`
		Notes      int        `json:"notes"`
		Sched      int        `json:"sched_failures"`
		Mismatches []mismatch `json:"mismatches"`
	}{Cases: len(cases)}
	for i, r := range results {
		vs := []interface{}{cfgLine{K: "cfg", N: cases[i].N}}
		for _, e := range r.Actual {
			vs = append(vs, e)
		}
		w.WriteAll(vs...)
		if r.Match {
			sum.Matched++
		} else if len(sum.Mismatches) < 2000 {
			sum.Mismatches = append(sum.Mismatches, mismatch{N: r.N, Cfg: r.Cfg, Script: cases[i].Script, Expected: cases[i].Obs, Actual: r.Actual, Note: r.Note})
		}
		if r.Note != "" {
			sum.Notes++
			if len(r.Note) > 6 && r.Note[:6] == "sched:" {
				sum.Sched++
			}
		}
	}
	if err := w.Close(); err != nil {
		fmt.Fprintln(os.Stderr, err)
		return 2
	}
	b, _ := json.MarshalIndent(sum, "", " ")
	if err := os.WriteFile(*resPath, b, 0o644); err != nil {
		fmt.Fprintln(os.Stderr, err)
		return 2
	}
	fmt.Printf("pend: cases=%d matched=%d mismatched=%d notes=%d sched_failures=%d\n", sum.Cases, sum.Matched, sum.Cases-sum.Matched, sum.Notes, sum.Sched)
	return 0
}
