package main

import (
	"bufio"
	"bytes"
	"encoding/json"
	"flag"
	"fmt"
	"io"
	"log"
	"os"
	"os/exec"
	"strings"
	"sync"
	"time"

	"verif/harness/chand"
	"verif/harness/tr"
)

func init() {
	commands["chan"] = chanCmd
	commands["chan-one"] = chanOne
}

func chanOne(args []string) int {
	log.SetOutput(io.Discard)
	var c chand.Case
	if err := json.NewDecoder(os.Stdin).Decode(&c); err != nil {
		fmt.Fprintln(os.Stderr, "bad case:", err)
		return 2
	}
	return chand.Run(c)
}

func chanCmd(args []string) int {
	fs := flag.NewFlagSet("chan", flag.ExitOnError)
	casesPath := fs.String("cases", "", "ndjson file of run configurations")
	tracePath := fs.String("trace", "", "ndjson trace output")
	resPath := fs.String("results", "", "json summary output")
	workers := fs.Int("workers", 12, "parallel child processes")
	fs.Parse(args)
	f, err := os.Open(*casesPath)
	if err != nil {
		fmt.Fprintln(os.Stderr, err)
		return 2
	}
	defer f.Close()
	var cases []chand.Case
	var raws [][]byte
	sc := bufio.NewScanner(f)
	sc.Buffer(make([]byte, 1<<20), 1<<26)
	for sc.Scan() {
		var c chand.Case
		if err := json.Unmarshal(sc.Bytes(), &c); err != nil {
			fmt.Fprintln(os.Stderr, "bad case line:", err)
			return 2
		}
		cases = append(cases, c)
		raws = append(raws, append([]byte(nil), sc.Bytes()...))
	}
	self, _ := os.Executable()
	type outcome struct {
		events  []chand.Event
		crashed string
		note    string
	}
	results := make([]outcome, len(cases))
	var wg sync.WaitGroup
	ch := make(chan int)
	for i := 0; i < *workers; i++ {
		wg.Add(1)
		go func() {
			defer wg.Done()
			for idx := range ch {
				cmd := exec.Command(self, "chan-one")
				cmd.Stdin = bytes.NewReader(raws[idx])
				var ob, eb bytes.Buffer
				cmd.Stdout = &ob
				cmd.Stderr = &eb
				if err := cmd.Start(); err != nil {
					results[idx].note = "start: " + err.Error()
					continue
				}
				done := make(chan error, 1)
				go func() { done <- cmd.Wait() }()
				var werr error
				select {
				case werr = <-done:
				case <-time.After(120 * time.Second):
					cmd.Process.Kill()
					werr = <-done
					results[idx].note = "timeout"
				}
				dec := json.NewDecoder(&ob)
				for {
					var e chand.Event
					if err := dec.Decode(&e); err != nil {
						break
					}
					results[idx].events = append(results[idx].events, e)
				}
				if werr != nil && results[idx].note == "" {
					first := ""
					for _, l := range strings.Split(eb.String(), "\n") {
						if strings.HasPrefix(l, "panic:") || strings.HasPrefix(l, "fatal error:") {
							first = l
							break
						}
					}
					if first != "" {
						results[idx].crashed = first
					} else {
						results[idx].note = "setup: " + strings.TrimSpace(eb.String())
					}
				}
			}
		}()
	}
	for i := range cases {
		ch <- i
	}
	close(ch)
	wg.Wait()
	w, err := tr.NewWriter(*tracePath)
	if err != nil {
		fmt.Fprintln(os.Stderr, err)
		return 2
	}
	type cfgLine struct {
		K string `json:"k"`
		N int    `json:"n"`
	}
	type rec struct {
		N       int    `json:"n"`
		Events  int    `json:"events"`
		Crashed string `json:"crashed,omitempty"`
		Note    string `json:"note,omitempty"`
	}
	sum := struct {
		Cases   int   `json:"cases"`
		Crashed int   `json:"crashed"`
		Setup   int   `json:"setup_failures"`
		Records []rec `json:"records"`
	}{Cases: len(cases)}
	for i, r := range results {
		evs := r.events
		if r.crashed != "" {
			sum.Crashed++
			evs = append(evs, chand.Event{K: "panic", Res: r.crashed}, chand.Event{K: "end", N: 0, Res: "crash"})
		}
		if r.note != "" {
			sum.Setup++
		}
		vs := []interface{}{cfgLine{K: "cfg", N: cases[i].N}}
		if r.note == "" { // a run that could not be set up says nothing about the library
			for _, e := range evs {
				vs = append(vs, e)
			}
		}
		w.WriteAll(vs...)
		sum.Records = append(sum.Records, rec{N: cases[i].N, Events: len(evs), Crashed: r.crashed, Note: r.note})
	}
	if err := w.Close(); err != nil {
		fmt.Fprintln(os.Stderr, err)
		return 2
	}
	b, _ := json.Marshal(sum)
	if err := os.WriteFile(*resPath, b, 0o644); err != nil {
		fmt.Fprintln(os.Stderr, err)
		return 2
	}
	fmt.Printf("chan: cases=%d crashed=%d setup_failures=%d\n", sum.Cases, sum.Crashed, sum.Setup)
	return 0
}
