package main

import (
	"bufio"
	"encoding/json"
	"flag"
	"fmt"
	"io"
	"log"
	"os"
	"runtime/debug"
	"sync"

	"verif/harness/clid"
	"verif/harness/tr"
)

func init() { commands["cli"] = cliCmd }

func cliCmd(args []string) int {
	fs := flag.NewFlagSet("cli", flag.ExitOnError)
	casesPath := fs.String("cases", "", "ndjson file of fault cases")
	tracePath := fs.String("trace", "", "ndjson trace output")
	resPath := fs.String("results", "", "json summary output")
	workers := fs.Int("workers", 8, "parallel cases")
	fs.Parse(args)
	log.SetOutput(io.Discard)
	// a finalizer closing a connection the client leaked would hide the leak from the server side
	debug.SetGCPercent(-1)
	debug.SetMemoryLimit(3 << 30)
	f, err := os.Open(*casesPath)
	if err != nil {
		fmt.Fprintln(os.Stderr, err)
		return 2
	}
	defer f.Close()
	var cases []clid.Case
	sc := bufio.NewScanner(f)
	for sc.Scan() {
		var c clid.Case
		if err := json.Unmarshal(sc.Bytes(), &c); err != nil {
			fmt.Fprintln(os.Stderr, "bad case line:", err)
			return 2
		}
		cases = append(cases, c)
	}
	results := make([]clid.Result, len(cases))
	var wg sync.WaitGroup
	ch := make(chan int)
	for i := 0; i < *workers; i++ {
		wg.Add(1)
		go func() {
			defer wg.Done()
			for idx := range ch {
				results[idx] = clid.Replay(cases[idx])
			}
		}()
	}
	for i := range cases {
		ch <- i
	}
	close(ch)
	wg.Wait()
	w, err := tr.NewWriter(*tracePath)
	if err != nil {
		fmt.Fprintln(os.Stderr, err)
		return 2
	}
	type cfgLine struct {
		K string `json:"k"`
		N int    `json:"n"`
	}
	notes := 0
	for i, r := range results {
		vs := []interface{}{cfgLine{K: "cfg", N: cases[i].N}}
		if r.Note == "" {
			for _, e := range r.Actual {
				vs = append(vs, e)
			}
		} else {
			notes++
		}
		w.WriteAll(vs...)
	}
	if err := w.Close(); err != nil {
		fmt.Fprintln(os.Stderr, err)
		return 2
	}
	b, _ := json.Marshal(struct {
		Cases   int           `json:"cases"`
		Notes   int           `json:"notes"`
		Results []clid.Result `json:"results"`
	}{len(cases), notes, results})
	if err := os.WriteFile(*resPath, b, 0o644); err != nil {
		fmt.Fprintln(os.Stderr, err)
		return 2
	}
	fmt.Printf("cli: cases=%d setup_failures=%d\n", len(cases), notes)
	return 0
}
