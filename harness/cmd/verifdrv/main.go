// verifdrv is the single driver binary of the verification harness.
// Sub-commands replay TLC-generated behaviours against the real lime-go
// code (built from /repo with -tags verif) and record ndjson traces.
package main

import (
	"fmt"
	"os"
	"runtime/pprof"
)

type cmdFunc func(args []string) int

var commands = map[string]cmdFunc{}

func main() {
	if len(os.Args) < 2 {
		fmt.Fprintln(os.Stderr, "usage: verifdrv <command> [flags]")
		os.Exit(2)
	}
	f, ok := commands[os.Args[1]]
	if !ok {
		fmt.Fprintln(os.Stderr, "unknown command", os.Args[1])
		os.Exit(2)
	}
	if pf := os.Getenv("VERIF_CPUPROF"); pf != "" {
		fh, err := os.Create(pf)
		if err == nil {
			pprof.StartCPUProfile(fh)
			rc := f(os.Args[2:])
			pprof.StopCPUProfile()
			fh.Close()
			os.Exit(rc)
		}
	}
	os.Exit(f(os.Args[2:]))
}
