package main

import (
	"bufio"
	"encoding/json"
	"flag"
	"fmt"
	"io"
	"log"
	"os"
	"sync"

	"verif/harness/tr"
	"verif/harness/transd"
)

func init() { commands["trans"] = transCmd; commands["lis"] = lisCmd }

func transCmd(args []string) int {
	fs := flag.NewFlagSet("trans", flag.ExitOnError)
	casesPath := fs.String("cases", "", "ndjson file of cases")
	tracePath := fs.String("trace", "", "ndjson trace output")
	resPath := fs.String("results", "", "json summary output")
	workers := fs.Int("workers", 32, "parallel cases")
	fs.Parse(args)
	log.SetOutput(io.Discard)
	f, err := os.Open(*casesPath)
	if err != nil {
		fmt.Fprintln(os.Stderr, err)
		return 2
	}
	defer f.Close()
	var cases []transd.Case
	sc := bufio.NewScanner(f)
	sc.Buffer(make([]byte, 1<<20), 1<<24)
	for sc.Scan() {
		var c transd.Case
		if err := json.Unmarshal(sc.Bytes(), &c); err != nil {
			fmt.Fprintln(os.Stderr, "bad case line:", err)
			return 2
		}
		cases = append(cases, c)
	}
	results := make([]transd.Result, len(cases))
	var wg sync.WaitGroup
	ch := make(chan int)
	var ws []*transd.Worker
	for i := 0; i < *workers; i++ {
		w, err := transd.NewWorker(i)
		if err != nil {
			fmt.Fprintln(os.Stderr, "worker:", err)
			return 2
		}
		ws = append(ws, w)
	}
	for _, w := range ws {
		wg.Add(1)
		go func(w *transd.Worker) {
			defer wg.Done()
			for idx := range ch {
				results[idx] = w.Replay(cases[idx])
			}
		}(w)
	}
	for i := range cases {
		ch <- i
	}
	close(ch)
	wg.Wait()
	w, err := tr.NewWriter(*tracePath)
	if err != nil {
		fmt.Fprintln(os.Stderr, err)
		return 2
	}
	type cfgLine struct {
		K    string `json:"k"`
		N    int    `json:"n"`
		Kind string `json:"kind"`
	}
	type mism struct {
		N    int         `json:"n"`
		Cfg  transd.Cfg  `json:"cfg"`
		Note string      `json:"note"`
		Act  []transd.Ev `json:"actual"`
	}
	notes, matched := 0, 0
	var mms []mism
	for i, r := range results {
		vs := []interface{}{cfgLine{K: "cfg", N: cases[i].N, Kind: cases[i].Cfg.Kind}}
		if r.Actual == nil {
			notes++
		} else if r.Matched {
			matched++
		} else {
			mms = append(mms, mism{r.N, r.Cfg, r.Note, r.Actual})
		}
		for _, e := range r.Actual {
			vs = append(vs, e)
		}
		w.WriteAll(vs...)
	}
	if err := w.Close(); err != nil {
		fmt.Fprintln(os.Stderr, err)
		return 2
	}
	b, _ := json.Marshal(struct {
		Cases      int    `json:"cases"`
		Matched    int    `json:"matched"`
		Notes      int    `json:"notes"`
		Mismatches []mism `json:"mismatches"`
	}{len(cases), matched, notes, mms})
	if err := os.WriteFile(*resPath, b, 0o644); err != nil {
		fmt.Fprintln(os.Stderr, err)
		return 2
	}
	fmt.Printf("trans: cases=%d matched=%d setup_failures=%d\n", len(cases), matched, notes)
	return 0
}

func lisCmd(args []string) int {
	fs := flag.NewFlagSet("lis", flag.ExitOnError)
	casesPath := fs.String("cases", "", "ndjson file of cases")
	tracePath := fs.String("trace", "", "ndjson trace output")
	resPath := fs.String("results", "", "json summary output")
	workers := fs.Int("workers", 16, "parallel cases")
	fs.Parse(args)
	log.SetOutput(io.Discard)
	f, err := os.Open(*casesPath)
	if err != nil {
		fmt.Fprintln(os.Stderr, err)
		return 2
	}
	defer f.Close()
	var cases []transd.LCase
	sc := bufio.NewScanner(f)
	sc.Buffer(make([]byte, 1<<20), 1<<24)
	for sc.Scan() {
		var c transd.LCase
		if err := json.Unmarshal(sc.Bytes(), &c); err != nil {
			fmt.Fprintln(os.Stderr, "bad case line:", err)
			return 2
		}
		cases = append(cases, c)
	}
	results := make([]transd.LResult, len(cases))
	var wg sync.WaitGroup
	ch := make(chan int)
	for i := 0; i < *workers; i++ {
		wg.Add(1)
		go func() {
			defer wg.Done()
			for idx := range ch {
				results[idx] = transd.ReplayListener(cases[idx])
			}
		}()
	}
	for i := range cases {
		if cases[i].Cfg.Kind != "inproc" {
			ch <- i
		}
	}
	close(ch)
	wg.Wait()
	for i := range cases { // the in-process registry is not synchronised: one at a time
		if cases[i].Cfg.Kind == "inproc" {
			results[i] = transd.ReplayListener(cases[i])
		}
	}
	w, err := tr.NewWriter(*tracePath)
	if err != nil {
		fmt.Fprintln(os.Stderr, err)
		return 2
	}
	type cfgLine struct {
		K    string `json:"k"`
		N    int    `json:"n"`
		Kind string `json:"kind"`
	}
	type mism struct {
		N    int          `json:"n"`
		Cfg  transd.Cfg   `json:"cfg"`
		Note string       `json:"note"`
		Act  []transd.LEv `json:"actual"`
	}
	matched := 0
	var mms []mism
	for i, r := range results {
		vs := []interface{}{cfgLine{K: "cfg", N: cases[i].N, Kind: cases[i].Cfg.Kind}}
		if r.Matched {
			matched++
		} else {
			mms = append(mms, mism{r.N, r.Cfg, r.Note, r.Actual})
		}
		for _, e := range r.Actual {
			vs = append(vs, e)
		}
		w.WriteAll(vs...)
	}
	if err := w.Close(); err != nil {
		fmt.Fprintln(os.Stderr, err)
		return 2
	}
	b, _ := json.Marshal(struct {
		Cases      int    `json:"cases"`
		Matched    int    `json:"matched"`
		Notes      int    `json:"notes"`
		Mismatches []mism `json:"mismatches"`
	}{len(cases), matched, 0, mms})
	if err := os.WriteFile(*resPath, b, 0o644); err != nil {
		fmt.Fprintln(os.Stderr, err)
		return 2
	}
	fmt.Printf("lis: cases=%d matched=%d\n", len(cases), matched)
	return 0
}
