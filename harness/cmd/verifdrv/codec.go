package main

import (
	"bufio"
	"context"
	"encoding/json"
	"flag"
	"fmt"
	"io"
	"log"
	"net"
	"os"
	"sync"
	"time"

	lime "github.com/takenet/lime-go"
	"verif/harness/codec"
	"verif/harness/tr"
)

func init() { commands["codec"] = codecCmd }

// wsPair is a real WebSocket transport pair on loopback.
type wsPair struct {
	mu     sync.Mutex
	client lime.Transport
	server lime.Transport
}

func newWSPair() (*wsPair, func(), error) {
	l, err := net.Listen("tcp", "127.0.0.1:0")
	if err != nil {
		return nil, nil, err
	}
	addr := l.Addr().(*net.TCPAddr)
	l.Close()
	lis := lime.NewWebsocketTransportListener(&lime.WebsocketConfig{})
	ctx := context.Background()
	if err := lis.Listen(ctx, addr); err != nil {
		return nil, nil, err
	}
	var ct lime.Transport
	for i := 0; i < 100; i++ {
		ct, err = lime.DialWebsocket(ctx, fmt.Sprintf("ws://%s/", addr.String()), nil, nil)
		if err == nil {
			break
		}
		time.Sleep(10 * time.Millisecond)
	}
	if err != nil {
		lis.Close()
		return nil, nil, err
	}
	actx, cancel := context.WithTimeout(ctx, 5*time.Second)
	defer cancel()
	st, err := lis.Accept(actx)
	if err != nil {
		lis.Close()
		return nil, nil, err
	}
	return &wsPair{client: ct, server: st}, func() { ct.Close(); st.Close(); lis.Close() }, nil
}

// sender is implemented by every envelope pointer type through the transport API.
func (p *wsPair) roundTrip(e interface{}) (interface{}, error) {
	p.mu.Lock()
	defer p.mu.Unlock()
	ctx, cancel := context.WithTimeout(context.Background(), 5*time.Second)
	defer cancel()
	var err error
	switch v := e.(type) {
	case *lime.Message:
		err = p.client.Send(ctx, v)
	case *lime.Notification:
		err = p.client.Send(ctx, v)
	case *lime.RequestCommand:
		err = p.client.Send(ctx, v)
	case *lime.ResponseCommand:
		err = p.client.Send(ctx, v)
	case *lime.Session:
		err = p.client.Send(ctx, v)
	default:
		return nil, fmt.Errorf("unknown envelope %T", e)
	}
	if err != nil {
		return nil, err
	}
	return p.server.Receive(ctx)
}

func codecCmd(args []string) int {
	fs := flag.NewFlagSet("codec", flag.ExitOnError)
	casesPath := fs.String("cases", "", "ndjson file of generated cases")
	tracePath := fs.String("trace", "", "ndjson trace output")
	resPath := fs.String("results", "", "json summary output")
	workers := fs.Int("workers", 16, "parallel replays")
	seed := fs.Int("seed", 1, "seed of the string pool")
	ws := fs.Bool("ws", true, "also round-trip through a real WebSocket pair")
	fs.Parse(args)
	log.SetOutput(io.Discard)
	f, err := os.Open(*casesPath)
	if err != nil {
		fmt.Fprintln(os.Stderr, err)
		return 2
	}
	defer f.Close()
	var cases []codec.Case
	sc := bufio.NewScanner(f)
	sc.Buffer(make([]byte, 1<<20), 1<<26)
	for sc.Scan() {
		var c codec.Case
		if err := json.Unmarshal(sc.Bytes(), &c); err != nil {
			fmt.Fprintln(os.Stderr, "bad case line:", err)
			return 2
		}
		cases = append(cases, c)
	}
	if *ws {
		var pairs []*wsPair
		for i := 0; i < 4; i++ {
			p, closeFn, err := newWSPair()
			if err != nil {
				fmt.Fprintln(os.Stderr, "websocket pair:", err)
				return 2
			}
			defer closeFn()
			pairs = append(pairs, p)
		}
		var rr uint32
		var rrMu sync.Mutex
		codec.WS = func(e interface{}) (interface{}, error) {
			rrMu.Lock()
			rr++
			p := pairs[int(rr)%len(pairs)]
			rrMu.Unlock()
			return p.roundTrip(e)
		}
	}
	results := make([]codec.Result, len(cases))
	var wg sync.WaitGroup
	ch := make(chan int)
	for i := 0; i < *workers; i++ {
		wg.Add(1)
		go func() {
			defer wg.Done()
			for idx := range ch {
				results[idx] = codec.Replay(cases[idx], *seed)
			}
		}()
	}
	for i := range cases {
		ch <- i
	}
	close(ch)
	wg.Wait()
	w, err := tr.NewWriter(*tracePath)
	if err != nil {
		fmt.Fprintln(os.Stderr, err)
		return 2
	}
	type cfgLine struct {
		K   string `json:"k"`
		N   int    `json:"n"`
		Fam string `json:"fam"`
	}
	sum := struct {
		Cases  int `json:"cases"`
		Events int `json:"events"`
		Notes  int `json:"notes"`
	}{Cases: len(cases)}
	for i, r := range results {
		vs := []interface{}{cfgLine{K: "cfg", N: cases[i].N, Fam: cases[i].Fam}}
		for _, e := range r.Actual {
			vs = append(vs, e)
			sum.Events++
		}
		if r.Note != "" {
			sum.Notes++
			vs = append(vs, codec.Event{K: "harness", Detail: r.Note})
		}
		w.WriteAll(vs...)
	}
	if err := w.Close(); err != nil {
		fmt.Fprintln(os.Stderr, err)
		return 2
	}
	b, _ := json.MarshalIndent(sum, "", " ")
	if err := os.WriteFile(*resPath, b, 0o644); err != nil {
		fmt.Fprintln(os.Stderr, err)
		return 2
	}
	fmt.Printf("codec: cases=%d events=%d notes=%d\n", sum.Cases, sum.Events, sum.Notes)
	return 0
}
