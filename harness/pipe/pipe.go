// Package pipe is an in-memory duplex net.Conn with deadlines, byte-exact
// logging of what each side wrote, optional bounded capacity, and
// notification of "this side is blocked in Read with nothing buffered"
// (used for step-wise quiescence detection when replaying handshakes).
package pipe

import (
	"errors"
	"io"
	"net"
	"sync"
	"time"
)

type timeoutError struct{}

func (timeoutError) Error() string   { return "pipe: i/o timeout" }
func (timeoutError) Timeout() bool   { return true }
func (timeoutError) Temporary() bool { return true }

// ErrTimeout is returned when a deadline expires.
var ErrTimeout net.Error = timeoutError{}

// ErrKicked is returned by a Read that was interrupted with Kick.
var ErrKicked = errors.New("pipe: reader kicked")

type queue struct {
	buf     []byte
	closedW bool // writer closed: reader gets EOF after draining
	closedR bool // reader closed: writer gets an error
	waiting int  // readers blocked with an empty buffer
	cap     int  // 0 = unbounded
	log     []byte
	keepLog bool
}

type shared struct {
	mu      sync.Mutex
	changed chan struct{} // data / closure / deadline changes: what blocked Reads and Writes wait on
	status  chan struct{} // any change at all, including "a reader started to wait": what watchers wait on
}

func (s *shared) bump() {
	close(s.changed)
	s.changed = make(chan struct{})
	s.bumpStatus()
}

func (s *shared) bumpStatus() {
	close(s.status)
	s.status = make(chan struct{})
}

// End is one side of the pipe.
type End struct {
	s      *shared
	in     *queue
	out    *queue
	rdl    time.Time
	wdl    time.Time
	closed bool
	kicked bool
	poked  bool
	name   string
}

type addr string

func (a addr) Network() string { return "pipe" }
func (a addr) String() string  { return string(a) }

// New creates a connected pair. capacity bounds each direction (0 = unbounded).
func New(capacity int, keepLog bool) (*End, *End) {
	s := &shared{changed: make(chan struct{}), status: make(chan struct{})}
	a2b := &queue{cap: capacity, keepLog: keepLog}
	b2a := &queue{cap: capacity, keepLog: keepLog}
	a := &End{s: s, in: b2a, out: a2b, name: "a"}
	b := &End{s: s, in: a2b, out: b2a, name: "b"}
	return a, b
}

func (e *End) wait(ch chan struct{}, dl time.Time) {
	if dl.IsZero() {
		<-ch
		return
	}
	d := time.Until(dl)
	if d <= 0 {
		return
	}
	t := time.NewTimer(d)
	select {
	case <-ch:
	case <-t.C:
	}
	t.Stop()
}

func (e *End) Read(b []byte) (int, error) {
	e.s.mu.Lock()
	defer e.s.mu.Unlock()
	announced := false
	defer func() {
		if announced {
			e.in.waiting--
		}
	}()
	for {
		if e.closed {
			return 0, net.ErrClosed
		}
		if e.kicked {
			e.kicked = false
			return 0, ErrKicked
		}
		if e.poked {
			e.poked = false
			return 0, ErrTimeout
		}
		if len(e.in.buf) > 0 {
			n := copy(b, e.in.buf)
			e.in.buf = e.in.buf[n:]
			e.s.bump()
			return n, nil
		}
		if e.in.closedW {
			return 0, io.EOF
		}
		if !e.rdl.IsZero() && !time.Now().Before(e.rdl) {
			return 0, ErrTimeout
		}
		if len(b) == 0 {
			return 0, nil
		}
		if !announced {
			announced = true
			e.in.waiting++
			e.s.bumpStatus()
		}
		ch := e.s.changed
		dl := e.rdl
		e.s.mu.Unlock()
		e.wait(ch, dl)
		e.s.mu.Lock()
	}
}

func (e *End) Write(b []byte) (int, error) {
	e.s.mu.Lock()
	defer e.s.mu.Unlock()
	n := 0
	for {
		if e.closed {
			return n, net.ErrClosed
		}
		if e.out.closedR {
			return n, io.ErrClosedPipe
		}
		if !e.wdl.IsZero() && !time.Now().Before(e.wdl) {
			return n, ErrTimeout
		}
		room := len(b) - n
		if e.out.cap > 0 {
			if free := e.out.cap - len(e.out.buf); free < room {
				room = free
			}
		}
		if room > 0 {
			e.out.buf = append(e.out.buf, b[n:n+room]...)
			if e.out.keepLog {
				e.out.log = append(e.out.log, b[n:n+room]...)
			}
			n += room
			e.s.bump()
		}
		if n == len(b) {
			return n, nil
		}
		ch := e.s.changed
		dl := e.wdl
		e.s.mu.Unlock()
		e.wait(ch, dl)
		e.s.mu.Lock()
	}
}

func (e *End) Close() error {
	e.s.mu.Lock()
	defer e.s.mu.Unlock()
	if e.closed {
		return net.ErrClosed
	}
	e.closed = true
	e.out.closedW = true
	e.in.closedR = true
	e.s.bump()
	return nil
}

// CloseWrite half-closes: the peer reads EOF, this side can still read.
func (e *End) CloseWrite() {
	e.s.mu.Lock()
	e.out.closedW = true
	e.s.bump()
	e.s.mu.Unlock()
}

func (e *End) LocalAddr() net.Addr  { return addr("pipe-" + e.name) }
func (e *End) RemoteAddr() net.Addr { return addr("pipe-peer-of-" + e.name) }

func (e *End) SetDeadline(t time.Time) error {
	e.s.mu.Lock()
	e.rdl, e.wdl = t, t
	e.s.bump()
	e.s.mu.Unlock()
	return nil
}
func (e *End) SetReadDeadline(t time.Time) error {
	e.s.mu.Lock()
	e.rdl = t
	e.s.bump()
	e.s.mu.Unlock()
	return nil
}
func (e *End) SetWriteDeadline(t time.Time) error {
	e.s.mu.Lock()
	e.wdl = t
	e.s.bump()
	e.s.mu.Unlock()
	return nil
}

// Kick makes a Read that is blocked (or the next Read) return ErrKicked.
func (e *End) Kick() {
	e.s.mu.Lock()
	e.kicked = true
	e.s.bump()
	e.s.mu.Unlock()
}

// Poke makes a Read of this end that is blocked on an empty buffer return a
// temporary timeout right away, as if its deadline had just passed. It is a
// time-acceleration device for code that polls with read deadlines.
func (e *End) Poke() {
	e.s.mu.Lock()
	if e.in.waiting > 0 && len(e.in.buf) == 0 {
		e.poked = true
		e.s.bump()
	}
	e.s.mu.Unlock()
}

// Unkick clears a pending kick that no Read consumed.
func (e *End) Unkick() {
	e.s.mu.Lock()
	e.kicked = false
	e.s.mu.Unlock()
}

// Discard drops whatever is buffered for this end and returns how much it was.
func (e *End) Discard() int {
	e.s.mu.Lock()
	defer e.s.mu.Unlock()
	n := len(e.in.buf)
	e.in.buf = nil
	if n > 0 {
		e.s.bump()
	}
	return n
}

// Status of the inbound direction of this end.
type Status struct {
	Buffered   int  // bytes waiting to be read by this end
	Waiting    bool // a Read of this end is blocked on an empty buffer
	PeerClosed bool // the peer closed its write side
	Closed     bool // this end was closed
}

func (e *End) Status() Status {
	e.s.mu.Lock()
	defer e.s.mu.Unlock()
	return Status{Buffered: len(e.in.buf), Waiting: e.in.waiting > 0, PeerClosed: e.in.closedW, Closed: e.closed}
}

// Changed returns a channel closed at the next state change of the pipe.
func (e *End) Changed() <-chan struct{} {
	e.s.mu.Lock()
	defer e.s.mu.Unlock()
	return e.s.status
}

// Written returns a copy of everything this end has written so far
// (only if the pipe was created with keepLog).
func (e *End) Written() []byte {
	e.s.mu.Lock()
	defer e.s.mu.Unlock()
	return append([]byte(nil), e.out.log...)
}

// PeerClosedRead reports whether the peer end was closed.
func (e *End) PeerClosedRead() bool {
	e.s.mu.Lock()
	defer e.s.mu.Unlock()
	return e.out.closedR
}
