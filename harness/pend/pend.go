// Package pend forces TLC-generated interleavings of Pending.tla onto the real
// goroutines of a channel (callers inside ProcessCommand, the receiver inside
// trySubmitCommandResult) through gates at the verif hooks, and also runs
// perturbed free runs; both record the observation history of PendingProps.
package pend

import (
	"context"
	"encoding/json"
	"errors"
	"fmt"
	"math/rand"
	"net"
	"os"
	"strconv"
	"strings"
	"sync"
	"sync/atomic"
	"time"

	lime "github.com/takenet/lime-go"
	"verif/harness/pipe"
)

// Event mirrors Q0 of PendingProps.tla.
type Event struct {
	K   string `json:"k"`
	C   string `json:"c"`
	ID  string `json:"id"`
	UID int    `json:"uid"`
	Res string `json:"res"`
	N   int    `json:"n"`
}

type Step struct {
	P   string `json:"p"`
	A   string `json:"a"`
	Arg string `json:"arg"`
}

type Cfg struct {
	Tier string `json:"tier"`
	Mode string `json:"mode,omitempty"` // "" = forced schedule, "free" = perturbed free run
	Seed int    `json:"seed,omitempty"`
}

type Case struct {
	N      int     `json:"n"`
	Cfg    Cfg     `json:"cfg"`
	Script []Step  `json:"script"`
	Obs    []Event `json:"obs"`
}

type Result struct {
	N      int     `json:"n"`
	Cfg    Cfg     `json:"cfg"`
	Match  bool    `json:"match"`
	Actual []Event `json:"actual"`
	Note   string  `json:"note,omitempty"`
}

var debugErrors = os.Getenv("VERIF_DEBUG") != ""

var gating = map[string]bool{"pc.enter": true, "pc.wait": true, "pc.cleanup": true,
	"ts.enter": true, "ts.looked": true, "ts.deleted": true}

type arrival struct {
	proc  string
	point string
}

type run struct {
	mu       sync.Mutex
	actual   []Event
	free     int32    // gates no longer hold anybody
	procOf   sync.Map // *lime.RequestCommand -> caller name
	release  map[string]chan struct{}
	arrivals chan arrival
	parked   map[string]string // proc -> point it is parked at
	rng      *rand.Rand
	rngMu    sync.Mutex
	perturb  bool
	events   chan struct{} // poked whenever an event is logged
}

var runs sync.Map // lime.Transport -> *run

func init() {
	prev := lime.VerifHook
	lime.VerifHook = func(point string, args ...interface{}) {
		if len(args) == 2 && (strings.HasPrefix(point, "pc.") || strings.HasPrefix(point, "ts.")) {
			if v, ok := runs.Load(args[0]); ok {
				v.(*run).hook(point, args[1])
			}
		}
		if prev != nil {
			prev(point, args...)
		}
	}
}

func (r *run) log(e Event) {
	r.mu.Lock()
	r.actual = append(r.actual, e)
	r.mu.Unlock()
	select {
	case r.events <- struct{}{}:
	default:
	}
}

func (r *run) hook(point string, arg interface{}) {
	if atomic.LoadInt32(&r.free) == 1 {
		return
	}
	if r.perturb {
		r.rngMu.Lock()
		d := r.rng.Intn(4)
		r.rngMu.Unlock()
		switch d {
		case 0:
		case 1:
			time.Sleep(time.Duration(20+d*30) * time.Microsecond)
		default:
			for i := 0; i < d; i++ {
				runtimeGosched()
			}
		}
		return
	}
	proc := "rcv"
	if strings.HasPrefix(point, "pc.") {
		v, ok := r.procOf.Load(arg)
		if !ok {
			return
		}
		proc = v.(string)
	}
	if !gating[point] {
		return
	}
	r.mu.Lock()
	ch := r.release[proc]
	r.mu.Unlock()
	r.arrivals <- arrival{proc, point}
	<-ch
}

func (r *run) snapshot() []Event {
	r.mu.Lock()
	defer r.mu.Unlock()
	return append([]Event(nil), r.actual...)
}

// waitEvent waits until pred holds over the log.
func (r *run) waitEvent(pred func([]Event) bool, d time.Duration) bool {
	dl := time.After(d)
	for {
		if pred(r.snapshot()) {
			return true
		}
		select {
		case <-r.events:
		case <-time.After(2 * time.Millisecond):
		case <-dl:
			return pred(r.snapshot())
		}
	}
}

func hasEv(evs []Event, k, c string, uid int) bool {
	for _, e := range evs {
		if e.K == k && (c == "" || e.C == c) && (uid == 0 || e.UID == uid) {
			return true
		}
	}
	return false
}

// ---- the channel under test and its raw peer -----------------------------------

type rig struct {
	r      *run
	cc     *lime.ClientChannel
	t      lime.Transport
	cli    *pipe.End
	srv    *pipe.End
	wmu    sync.Mutex
	closed chan struct{}
}

func newRig(r *run) (*rig, error) { return newRigSized(r, 64, 0) }

// newRigSized: streams of the given capacity, read by a consumer that takes `slow` per envelope
func newRigSized(r *run, buffer int, slow time.Duration) (*rig, error) {
	g := &rig{r: r, closed: make(chan struct{})}
	g.cli, g.srv = pipe.New(0, false)
	g.t = lime.VerifNewTCPTransport(g.cli, &lime.TCPConfig{}, false)
	g.cc = lime.NewClientChannel(g.t, buffer)
	runs.Store(g.t, r)
	dec := json.NewDecoder(g.srv)
	est := make(chan error, 1)
	go func() {
		ctx, cancel := context.WithTimeout(context.Background(), 5*time.Second)
		defer cancel()
		_, err := g.cc.EstablishSession(ctx, nil, nil, lime.Identity{Name: "me", Domain: "example.com"},
			func([]lime.AuthenticationScheme, lime.Authentication) lime.Authentication {
				return &lime.GuestAuthentication{}
			}, "home")
		est <- err
	}()
	var first map[string]interface{}
	if err := dec.Decode(&first); err != nil {
		return nil, err
	}
	if _, err := g.srv.Write([]byte(`{"id":"s1","from":"srv@example.com/i","to":"me@example.com/home","state":"established"}` + "\n")); err != nil {
		return nil, err
	}
	if err := <-est; err != nil {
		return nil, err
	}
	// the raw peer logs every request it sees
	go func() {
		defer close(g.closed)
		for {
			var m map[string]interface{}
			if err := dec.Decode(&m); err != nil {
				return
			}
			if uri, _ := m["uri"].(string); strings.HasPrefix(uri, "/c/") {
				id, _ := m["id"].(string)
				r.log(Event{K: "reqseen", C: uri[3:], ID: id})
			}
		}
	}()
	// whatever reaches the response stream
	go func() {
		for resp := range g.cc.RespCmdChan() {
			uid, _ := strconv.Atoi(resp.Metadata["uid"])
			r.log(Event{K: "stream", UID: uid, ID: resp.ID})
			if slow > 0 {
				time.Sleep(slow)
			}
		}
	}()
	return g, nil
}

func (g *rig) send(uid int, id string) error {
	g.wmu.Lock()
	defer g.wmu.Unlock()
	g.srv.SetWriteDeadline(time.Now().Add(2 * time.Second))
	_, err := g.srv.Write([]byte(fmt.Sprintf(`{"id":%q,"method":"get","status":"success","metadata":{"uid":"%d"}}`+"\n", id, uid)))
	return err
}

func (g *rig) close() {
	atomic.StoreInt32(&g.r.free, 1)
	g.r.mu.Lock()
	for _, ch := range g.r.release {
		select {
		case ch <- struct{}{}:
		default:
		}
	}
	g.r.mu.Unlock()
	g.srv.Close()
	g.cli.Close()
	runs.Delete(g.t)
}

type caller struct {
	name   string
	id     string
	ctx    context.Context
	cancel context.CancelFunc
	done   chan struct{}
}

func newCaller(name, id string) *caller {
	c := &caller{name: name, id: id, done: make(chan struct{})}
	c.ctx, c.cancel = context.WithCancel(context.Background())
	return c
}

func (g *rig) startCaller(name, id string) *caller {
	return g.start(newCaller(name, id))
}

func (g *rig) start(c *caller) *caller {
	name, id := c.name, c.id
	req := &lime.RequestCommand{}
	req.ID = id
	req.Method = lime.CommandMethodGet
	req.SetURIString("/c/" + name)
	g.r.procOf.Store(req, name)
	g.r.log(Event{K: "call", C: name, ID: id})
	go func() {
		defer close(c.done)
		resp, err := g.cc.ProcessCommand(c.ctx, req)
		ev := Event{K: "ret", C: name}
		switch {
		case err == nil && resp != nil:
			ev.Res = "resp"
			ev.ID = resp.ID
			ev.UID, _ = strconv.Atoi(resp.Metadata["uid"])
		case err != nil && strings.Contains(err.Error(), "already in use"):
			ev.Res = "inuse"
		case err != nil && c.ctx.Err() != nil && errors.Is(err, c.ctx.Err()):
			ev.Res = "ctxerr"
		default:
			ev.Res = "senderr"
			if debugErrors {
				fmt.Println("DEBUG senderr:", err)
			}
		}
		g.r.log(ev)
	}()
	return c
}

// ---- forced schedules -----------------------------------------------------------

func idOfCaller(name string) string {
	if name == "c" {
		return "Y"
	}
	return "X"
}

// Replay forces one generated interleaving onto the real goroutines.
func Replay(c Case) Result {
	if c.Cfg.Mode == "free" {
		return FreeRun(c)
	}
	res := Result{N: c.N, Cfg: c.Cfg}
	r := &run{release: map[string]chan struct{}{}, arrivals: make(chan arrival, 16), parked: map[string]string{},
		events: make(chan struct{}, 1)}
	r.release["rcv"] = make(chan struct{})
	g, err := newRig(r)
	if err != nil {
		res.Note = "rig: " + err.Error()
		return res
	}
	defer g.close()
	callers := map[string]*caller{}
	uid := 0
	// advance lets proc run until it parks at a gate, or until stop() holds
	advance := func(proc string, stop func([]Event) bool) bool {
		dl := time.After(3 * time.Second)
		for {
			if stop != nil && stop(r.snapshot()) {
				return true
			}
			select {
			case a := <-r.arrivals:
				r.parked[a.proc] = a.point
				if a.proc == proc {
					return true
				}
			case <-r.events:
			case <-time.After(2 * time.Millisecond):
			case <-dl:
				return false
			}
		}
	}
	release := func(proc string) {
		delete(r.parked, proc)
		r.mu.Lock()
		ch := r.release[proc]
		r.mu.Unlock()
		ch <- struct{}{}
	}
	fail := func(i int, s Step, why string) Result {
		// the real goroutines do not follow the schedule any further (a goroutine blocked where the
		// model lets it run, for instance): let everything run, look at what is left, and leave the
		// verdict to the monitor
		atomic.StoreInt32(&r.free, 1)
		for proc := range r.parked {
			release(proc)
		}
		time.Sleep(30 * time.Millisecond)
		r.log(Event{K: "end", N: lime.VerifPendingCommands(g.cc)})
		res.Actual = r.snapshot()
		res.Note = fmt.Sprintf("sched: step %d %s.%s: %s (parked=%v)", i, s.P, s.A, why, r.parked)
		return res
	}
	for i, s := range c.Script {
		switch s.A {
		case "Register":
			r.mu.Lock()
			r.release[s.P] = make(chan struct{})
			r.mu.Unlock()
			cl := callers[s.P]
			if cl == nil {
				cl = newCaller(s.P, idOfCaller(s.P))
				callers[s.P] = cl
			}
			g.start(cl)
			if !advance(s.P, nil) || r.parked[s.P] != "pc.enter" {
				return fail(i, s, "caller did not reach pc.enter")
			}
			release(s.P)
			name := s.P
			ok := advance(name, func(evs []Event) bool { return hasEv(evs, "ret", name, 0) })
			if !ok {
				return fail(i, s, "caller neither parked nor returned")
			}
			if r.parked[name] == "pc.wait" && cl.ctx.Err() == nil {
				if !r.waitEvent(func(evs []Event) bool { return hasEv(evs, "reqseen", name, 0) }, 2*time.Second) {
					return fail(i, s, "request never reached the peer")
				}
			}
		case "CtxEnd":
			if callers[s.P] == nil { // a context that has ended before the call is made
				callers[s.P] = newCaller(s.P, idOfCaller(s.P))
			}
			callers[s.P].cancel()
			r.log(Event{K: "ctxend", C: s.P})
		case "Wait":
			if r.parked[s.P] != "pc.wait" {
				return fail(i, s, "caller not parked at pc.wait")
			}
			release(s.P)
			if !advance(s.P, nil) || r.parked[s.P] != "pc.cleanup" {
				return fail(i, s, "caller did not reach pc.cleanup")
			}
		case "Cleanup":
			if r.parked[s.P] != "pc.cleanup" {
				return fail(i, s, "caller not parked at pc.cleanup")
			}
			release(s.P)
			select {
			case <-callers[s.P].done:
			case <-time.After(3 * time.Second):
				return fail(i, s, "caller did not return")
			}
		case "Lookup":
			uid++
			r.log(Event{K: "peersend", UID: uid, ID: s.Arg})
			if err := g.send(uid, s.Arg); err != nil {
				return fail(i, s, "peer write: "+err.Error())
			}
			if !advance("rcv", nil) || r.parked["rcv"] != "ts.enter" {
				return fail(i, s, "receiver did not reach ts.enter")
			}
			release("rcv")
			u := uid
			if !advance("rcv", func(evs []Event) bool { return hasEv(evs, "stream", "", u) }) {
				return fail(i, s, "receiver neither parked nor streamed")
			}
			// a gap between lookup and delete that the schedule does not use is passed through
			if r.parked["rcv"] == "ts.looked" && !nextRcvIs(c.Script, i, "Delete") {
				release("rcv")
				if !advance("rcv", nil) || r.parked["rcv"] != "ts.deleted" {
					return fail(i, s, "receiver did not reach ts.deleted")
				}
			}
		case "Delete":
			switch r.parked["rcv"] {
			case "ts.deleted": // the code under test has no gap here: nothing to do
			case "ts.looked":
				release("rcv")
				if !advance("rcv", nil) || r.parked["rcv"] != "ts.deleted" {
					return fail(i, s, "receiver did not reach ts.deleted")
				}
			default:
				return fail(i, s, "receiver not parked after its lookup")
			}
		case "Reply":
			if r.parked["rcv"] != "ts.deleted" {
				return fail(i, s, "receiver not parked at ts.deleted")
			}
			release("rcv")
			time.Sleep(200 * time.Microsecond)
		case "End":
			if c.Cfg.Mode == "probe" {
				// the schedule came from a coarser or finer model: let whatever is parked run to
				// completion, so that the end-of-run operators look at a quiescent channel
				atomic.StoreInt32(&r.free, 1)
				for proc := range r.parked {
					release(proc)
				}
				last := -1
				for k := 0; k < 100; k++ {
					time.Sleep(time.Millisecond)
					select {
					case a := <-r.arrivals:
						_ = a
					default:
					}
					n := len(r.snapshot())
					if n == last && k > 3 {
						break
					}
					last = n
				}
			}
			time.Sleep(2 * time.Millisecond)
			r.log(Event{K: "end", N: lime.VerifPendingCommands(g.cc)})
		}
	}
	res.Actual = r.snapshot()
	for _, cl := range callers {
		cl.cancel()
	}
	res.Match = c.Cfg.Mode == "probe" || same(c.Obs, res.Actual)
	return res
}

func nextRcvIs(script []Step, i int, a string) bool {
	for j := i + 1; j < len(script); j++ {
		if script[j].P == "rcv" {
			return script[j].A == a
		}
	}
	return false
}

func same(a, b []Event) bool {
	if len(a) != len(b) {
		return false
	}
	for i := range a {
		if a[i] != b[i] {
			return false
		}
	}
	return true
}

var _ = net.ErrClosed

func vpc(g *rig) int { return lime.VerifPendingCommands(g.cc) }
