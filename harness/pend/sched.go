package pend

import "runtime"

func runtimeGosched() { runtime.Gosched() }
