package pend

import (
	"math/rand"
	"time"
)

// FreeRun is filled in below (perturbed free runs).
func FreeRun(c Case) Result {
	res := Result{N: c.N, Cfg: c.Cfg}
	seed := int64(c.Cfg.Seed)*1000003 + int64(c.N)
	rng := rand.New(rand.NewSource(seed))
	r := &run{release: map[string]chan struct{}{}, arrivals: make(chan arrival, 16), parked: map[string]string{},
		events: make(chan struct{}, 1), perturb: true, rng: rand.New(rand.NewSource(seed + 1))}
	// stream capacity and consumer speed vary: a small stream behind a slow reader fills up
	buffer := []int{64, 1, 0}[rng.Intn(3)]
	slow := time.Duration([]int{0, 0, 400}[rng.Intn(3)]) * time.Microsecond
	g, err := newRigSized(r, buffer, slow)
	if err != nil {
		res.Note = "rig: " + err.Error()
		return res
	}
	defer g.close()
	ids := []string{"X", "Y", "W", "x"} // ("x" and "X" are different identifiers)
	nCallers := 3 + rng.Intn(6)
	type rec struct {
		cl      *caller
		cancels bool
	}
	var recs []rec
	uid := 0
	respond := func(id string) {
		uid++
		r.log(Event{K: "peersend", UID: uid, ID: id})
		_ = g.send(uid, id)
	}
	if rng.Intn(3) == 0 { // a burst of responses nobody asked for
		for k := 0; k < 5; k++ {
			respond("ZZ")
		}
	}
	for i := 0; i < nCallers; i++ {
		name := string(rune('a' + i))
		id := ids[rng.Intn(len(ids))]
		cl := g.startCaller(name, id)
		rc := rec{cl: cl, cancels: rng.Intn(4) == 0}
		recs = append(recs, rc)
		// adversarial responder: sometimes early, duplicated, unknown ids, or nothing yet
		switch rng.Intn(6) {
		case 0:
			respond("ZZ")
		case 1:
			respond(id)
			respond(id)
		case 2, 3:
			respond(id)
		}
		if rc.cancels {
			// the context ends while the request is waiting (a context that ends before the
			// request is written is the send path's business, not the table's)
			if r.waitEvent(func(evs []Event) bool { return hasEv(evs, "reqseen", name, 0) || hasEv(evs, "ret", name, 0) }, time.Second) &&
				!hasEv(r.snapshot(), "ret", name, 0) {
				if rng.Intn(2) == 0 {
					time.Sleep(time.Duration(rng.Intn(200)) * time.Microsecond)
				}
				r.log(Event{K: "ctxend", C: name})
				cl.cancel()
			}
		}
		if rng.Intn(3) == 0 {
			time.Sleep(time.Duration(rng.Intn(300)) * time.Microsecond)
		}
	}
	// late responses for everything seen so far, in random order
	for _, i := range rng.Perm(len(recs)) {
		if rng.Intn(3) != 0 {
			respond(recs[i].cl.id)
		}
	}
	// quiescence: nothing changes for a while
	last := -1
	for i := 0; i < 200; i++ {
		time.Sleep(2 * time.Millisecond)
		n := len(r.snapshot())
		if n == last && i > 5 {
			break
		}
		last = n
	}
	time.Sleep(5 * time.Millisecond)
	r.log(Event{K: "end", N: vpc(g)})
	res.Actual = r.snapshot()
	for _, rc := range recs {
		rc.cl.cancel()
	}
	res.Match = true
	return res
}
