package transd

import (
	"context"
	"fmt"
	"net"
	"sync/atomic"
	"time"

	lime "github.com/takenet/lime-go"
)

// listener cases (Listener.tla): operations on one transport listener, one at a time.
// In-process cases must run one after the other (the library's listener registry is a plain map).

type LEv struct {
	K   string `json:"k,omitempty"`
	Op  string `json:"op"`
	Res string `json:"res"`
}
type LCase struct {
	N   int   `json:"n"`
	Cfg Cfg   `json:"cfg"`
	Obs []LEv `json:"obs"`
}
type LResult struct {
	N       int    `json:"n"`
	Cfg     Cfg    `json:"cfg"`
	Matched bool   `json:"matched"`
	Actual  []LEv  `json:"actual"`
	Note    string `json:"note,omitempty"`
}

var lisN int32

// ReplayListener performs the operations of the predicted history on a fresh listener.
func ReplayListener(c LCase) LResult {
	if c.Cfg.Kind == "srv2" {
		return replayServerListeners(c)
	}
	if c.Cfg.Kind == "srv2busy" {
		return replayServerBusyPort(c)
	}
	if c.Cfg.Kind == "wsupgrade" {
		return replayWsHalfUpgrade(c)
	}
	res := LResult{N: c.N, Cfg: c.Cfg, Matched: true}
	bg := context.Background()
	var lis lime.TransportListener
	var addr net.Addr
	var tcpAddr *net.TCPAddr
	switch c.Cfg.Kind {
	case "tcp":
		lis = lime.NewTCPTransportListener(&lime.TCPConfig{})
	case "ws":
		lis = lime.NewWebsocketTransportListener(&lime.WebsocketConfig{})
	default:
		ia := lime.InProcessAddr(fmt.Sprintf("lisd-%d", atomic.AddInt32(&lisN, 1)))
		lis = lime.NewInProcessTransportListener(ia)
		addr = ia
	}
	var made []lime.Transport
	defer func() {
		for _, t := range made {
			_ = t.Close()
		}
	}()
	closed := true
	for _, p := range c.Obs {
		ev := LEv{K: "op", Op: p.Op}
		switch p.Op {
		case "listen":
			var err error
			if c.Cfg.Kind == "inproc" {
				err = lis.Listen(bg, addr)
			} else if tcpAddr != nil {
				err = lis.Listen(bg, tcpAddr)
			} else {
				for try := 0; try < 50; try++ {
					a := nextAddr()
					if err = lis.Listen(bg, a); err == nil {
						tcpAddr = a
						break
					}
					if err.Error() == "tcp listener is already started" || err.Error() == "ws listener already started" {
						break
					}
				}
			}
			ev.Res = classify(err)
			if err == nil {
				closed = false
			}
		case "dial":
			ctx, cancel := context.WithTimeout(bg, 400*time.Millisecond)
			var t lime.Transport
			var err error
			switch {
			case c.Cfg.Kind == "inproc":
				t, err = lime.DialInProcess(addr.(lime.InProcessAddr), 1)
			case tcpAddr == nil:
				err = fmt.Errorf("nothing ever listened")
			case c.Cfg.Kind == "tcp":
				t, err = lime.DialTcp(ctx, tcpAddr, nil)
			default:
				t, err = lime.DialWebsocket(ctx, "ws://"+tcpAddr.String()+"/", nil, nil)
			}
			cancel()
			ev.Res = "ok"
			if err != nil {
				ev.Res = "err"
			} else {
				made = append(made, t)
			}
		case "accept":
			wait := 80 * time.Millisecond
			if c.Cfg.Kind == "inproc" {
				wait = 10 * time.Millisecond
			}
			ctx, cancel := context.WithTimeout(bg, wait)
			t, err := lis.Accept(ctx)
			cancel()
			ev.Res = classify(err)
			if err == nil {
				made = append(made, t)
			}
		case "close":
			done := make(chan error, 1)
			go func() { done <- lis.Close() }()
			select {
			case err := <-done:
				ev.Res = classify(err)
				if ev.Res == "timeout" {
					ev.Res = "err"
				}
				if err == nil {
					closed = true
				}
			case <-time.After(hangAfter(c.Cfg.Kind)):
				ev.Res = "hang"
			}
		}
		res.Actual = append(res.Actual, ev)
		if ev.Res != p.Res && !(p.Res == "ok|err" && (ev.Res == "ok" || ev.Res == "err")) {
			res.Matched = false
			if res.Note == "" {
				res.Note = fmt.Sprintf("step %d %s: model %s, real %s", len(res.Actual), p.Op, p.Res, ev.Res)
			}
		}
		if ev.Res == "hang" {
			return res
		}
		if c.Cfg.Kind != "inproc" {
			time.Sleep(8 * time.Millisecond)
		}
	}
	if !closed {
		// (an in-process listener that was closed and started again blocks in its second Close; the
		// registry entry is removed before it blocks, which is all the next case needs)
		done := make(chan struct{})
		go func() { lis.Close(); close(done) }()
		select {
		case <-done:
		case <-time.After(30 * time.Millisecond):
		}
	}
	return res
}

func hangAfter(kind string) time.Duration {
	if kind == "inproc" {
		return 120 * time.Millisecond
	}
	return 700 * time.Millisecond
}

// replayServerListeners: a Server with two listeners, the first of which was closed behind the server's
// back, so that its Close reports an error when the server closes. The second one must be closed all the
// same: a dial to it after Server.Close is refused. (Cfg.URL picks the kind of the first listener.)
func replayServerListeners(c LCase) LResult {
	res := LResult{N: c.N, Cfg: c.Cfg, Matched: true}
	bg := context.Background()
	var first lime.TransportListener
	if c.Cfg.URL == "ws" {
		first = lime.NewWebsocketTransportListener(&lime.WebsocketConfig{})
	} else {
		first = lime.NewTCPTransportListener(&lime.TCPConfig{})
	}
	second := lime.NewTCPTransportListener(&lime.TCPConfig{})
	cfg := lime.NewServerConfig()
	var srv *lime.Server
	var addrB *net.TCPAddr
	done := make(chan error, 1)
	started := false
	for try := 0; try < 30 && !started; try++ {
		a, b := nextAddr(), nextAddr()
		srv = lime.NewServer(cfg, &lime.EnvelopeMux{}, lime.NewBoundListener(first, a), lime.NewBoundListener(second, b))
		go func(s *lime.Server) { done <- s.ListenAndServe() }(srv)
		select {
		case <-done:
			_ = first.Close()
			_ = second.Close()
		case <-time.After(40 * time.Millisecond):
			started, addrB = true, b
		}
	}
	if !started {
		res.Note = "setup: the server did not start"
		res.Matched = false
		return res
	}
	res.Actual = append(res.Actual, LEv{K: "op", Op: "listen", Res: "ok"})
	_ = first.Close() // behind the server's back
	cerr := make(chan error, 1)
	go func() { cerr <- srv.Close() }()
	ev := LEv{K: "op", Op: "close"}
	select {
	case err := <-cerr:
		ev.Res = classify(err)
		if ev.Res == "timeout" {
			ev.Res = "err"
		}
	case <-time.After(3 * time.Second):
		ev.Res = "hang"
	}
	res.Actual = append(res.Actual, ev)
	time.Sleep(20 * time.Millisecond)
	ctx, cancel := context.WithTimeout(bg, 400*time.Millisecond)
	t, err := lime.DialTcp(ctx, addrB, nil)
	cancel()
	d := LEv{K: "op", Op: "dial", Res: "err"}
	if err == nil {
		d.Res = "ok"
		_ = t.Close()
		_ = second.Close()
	}
	res.Actual = append(res.Actual, d)
	for i, p := range c.Obs {
		if i >= len(res.Actual) || !(res.Actual[i].Res == p.Res || (p.Res == "ok|err" && (res.Actual[i].Res == "ok" || res.Actual[i].Res == "err"))) {
			res.Matched = false
		}
	}
	return res
}

// replayServerBusyPort: a Server over two listeners of which the second cannot bind (its port is taken), so
// that ListenAndServe returns by itself with part of the server up. Close must still stop that part: a dial
// to the first listener afterwards is refused.
func replayServerBusyPort(c LCase) LResult {
	res := LResult{N: c.N, Cfg: c.Cfg, Matched: true}
	bg := context.Background()
	var taken net.Listener
	var a, b *net.TCPAddr
	var err error
	for try := 0; try < 30; try++ {
		b = nextAddr()
		if taken, err = net.Listen("tcp", b.String()); err == nil {
			break
		}
	}
	if err != nil {
		res.Note, res.Matched = "setup: "+err.Error(), false
		return res
	}
	defer taken.Close()
	var srv *lime.Server
	ok := false
	for try := 0; try < 30 && !ok; try++ {
		a = nextAddr()
		probe, err := net.Listen("tcp", a.String())
		if err != nil {
			continue
		}
		probe.Close()
		ok = true
	}
	srv = lime.NewServer(lime.NewServerConfig(), &lime.EnvelopeMux{},
		lime.NewBoundListener(lime.NewTCPTransportListener(&lime.TCPConfig{}), a),
		lime.NewBoundListener(lime.NewTCPTransportListener(&lime.TCPConfig{}), b))
	done := make(chan error, 1)
	go func() { done <- srv.ListenAndServe() }()
	lev := LEv{K: "op", Op: "listen", Res: "ok"} // (of the first listener)
	select {
	case <-done:
	case <-time.After(2 * time.Second):
	}
	res.Actual = append(res.Actual, lev)
	cerr := make(chan error, 1)
	go func() { cerr <- srv.Close() }()
	ev := LEv{K: "op", Op: "close"}
	select {
	case err := <-cerr:
		ev.Res = classify(err)
		if ev.Res == "timeout" {
			ev.Res = "err"
		}
	case <-time.After(3 * time.Second):
		ev.Res = "hang"
	}
	res.Actual = append(res.Actual, ev)
	time.Sleep(20 * time.Millisecond)
	ctx, cancel := context.WithTimeout(bg, 400*time.Millisecond)
	t, err := lime.DialTcp(ctx, a, nil)
	cancel()
	d := LEv{K: "op", Op: "dial", Res: "err"}
	if err == nil {
		d.Res = "ok"
		_ = t.Close()
	}
	res.Actual = append(res.Actual, d)
	for i, p := range c.Obs {
		if i >= len(res.Actual) || !(res.Actual[i].Res == p.Res || (p.Res == "ok|err" && (res.Actual[i].Res == "ok" || res.Actual[i].Res == "err"))) {
			res.Matched = false
		}
	}
	return res
}

// replayWsHalfUpgrade: a connection to a websocket listener that has not finished its HTTP upgrade when
// the listener is closed must be closed with it (nothing of a closed listener keeps serving).
func replayWsHalfUpgrade(c LCase) LResult {
	res := LResult{N: c.N, Cfg: c.Cfg, Matched: true}
	bg := context.Background()
	var lis lime.TransportListener
	var addr *net.TCPAddr
	var err error
	for try := 0; try < 50; try++ {
		addr = nextAddr()
		lis = lime.NewWebsocketTransportListener(&lime.WebsocketConfig{})
		if err = lis.Listen(bg, addr); err == nil {
			break
		}
	}
	if err != nil {
		res.Note, res.Matched = "setup: "+err.Error(), false
		return res
	}
	res.Actual = append(res.Actual, LEv{K: "op", Op: "listen", Res: "ok"})
	var raw net.Conn
	for i := 0; i < 50; i++ {
		if raw, err = net.DialTimeout("tcp", addr.String(), time.Second); err == nil {
			break
		}
		time.Sleep(5 * time.Millisecond)
	}
	if err != nil {
		lis.Close()
		res.Note, res.Matched = "setup: dial: "+err.Error(), false
		return res
	}
	defer raw.Close()
	fmt.Fprintf(raw, "GET / HTTP/1.1\r\nHost: %s\r\nUpgrade: websocket\r\n", addr.String()) // ... and no more
	time.Sleep(50 * time.Millisecond)
	ev := LEv{K: "op", Op: "close", Res: classify(lis.Close())}
	if ev.Res == "timeout" {
		ev.Res = "err"
	}
	res.Actual = append(res.Actual, ev)
	out := "open"
	raw.SetReadDeadline(time.Now().Add(1200 * time.Millisecond))
	buf := make([]byte, 512)
	for {
		_, rerr := raw.Read(buf)
		if rerr == nil {
			continue
		}
		if ne, ok := rerr.(net.Error); !(ok && ne.Timeout()) {
			out = "closed"
		}
		break
	}
	res.Actual = append(res.Actual, LEv{K: "op", Op: "halfopen", Res: out})
	for i, p := range c.Obs {
		if i >= len(res.Actual) || !(res.Actual[i].Res == p.Res || (p.Res == "ok|err" && (res.Actual[i].Res == "ok" || res.Actual[i].Res == "err"))) {
			res.Matched = false
		}
	}
	return res
}
