// Package transd executes operation sequences generated from Transport.tla on
// real transport pairs (in-process, TCP, WebSocket), one operation at a time.
package transd

import (
	"context"
	"crypto/tls"
	"fmt"
	"net"
	"strconv"
	"strings"
	"sync"
	"sync/atomic"
	"time"

	"github.com/gorilla/websocket"
	lime "github.com/takenet/lime-go"
	"verif/harness/hs"
)

type Ev struct {
	K    string `json:"k,omitempty"`
	Op   string `json:"op"`
	Side string `json:"side"`
	Res  string `json:"res"`
	V    int    `json:"v"`
}
type Cfg struct {
	Kind   string `json:"kind"`
	K      int    `json:"k"`
	URL    string `json:"url,omitempty"`    // kind "wsattr": ws | wss
	TLSCfg string `json:"tlscfg,omitempty"` // kind "wsattr": "y" = the dialer is given a TLS configuration
}
type Case struct {
	N   int  `json:"n"`
	Cfg Cfg  `json:"cfg"`
	Obs []Ev `json:"obs"`
}
type Result struct {
	N       int    `json:"n"`
	Cfg     Cfg    `json:"cfg"`
	Matched bool   `json:"matched"`
	Actual  []Ev   `json:"actual"`
	Note    string `json:"note,omitempty"`
}

// Worker owns one listener per kind and makes a fresh pair for every case.
type Worker struct {
	id     int
	tcp    lime.TransportListener
	tcpAdr net.Addr
	ws     lime.TransportListener
	wsAdr  *net.TCPAddr
	inproc lime.TransportListener
	ia     lime.InProcessAddr
}

var inprocMu sync.Mutex
var port int32

func nextAddr() *net.TCPAddr {
	n := atomic.AddInt32(&port, 1)
	return &net.TCPAddr{IP: net.IPv4(127, 0, 0, 1), Port: 50500 + int(n)%9000}
}

func NewWorker(id int) (*Worker, error) {
	w := &Worker{id: id}
	bg := context.Background()
	var err error
	for try := 0; try < 50; try++ {
		a := nextAddr()
		w.tcp = lime.NewTCPTransportListener(&lime.TCPConfig{})
		if err = w.tcp.Listen(bg, a); err == nil {
			w.tcpAdr = a
			break
		}
	}
	if err != nil {
		return nil, err
	}
	for try := 0; try < 50; try++ {
		a := nextAddr()
		w.ws = lime.NewWebsocketTransportListener(&lime.WebsocketConfig{})
		if err = w.ws.Listen(bg, a); err == nil {
			w.wsAdr = a
			break
		}
	}
	if err != nil {
		return nil, err
	}
	w.ia = lime.InProcessAddr(fmt.Sprintf("transd-%d", id))
	w.inproc = lime.NewInProcessTransportListener(w.ia)
	inprocMu.Lock()
	err = w.inproc.Listen(bg, w.ia)
	inprocMu.Unlock()
	return w, err
}

func (w *Worker) pair(c Cfg) (a, b lime.Transport, err error) {
	ctx, cancel := context.WithTimeout(context.Background(), 3*time.Second)
	defer cancel()
	switch c.Kind {
	case "tcp":
		if a, err = lime.DialTcp(ctx, w.tcpAdr, nil); err != nil {
			return
		}
		b, err = w.tcp.Accept(ctx)
	case "ws":
		for i := 0; i < 50; i++ {
			if a, err = lime.DialWebsocket(ctx, "ws://"+w.wsAdr.String()+"/", nil, nil); err == nil {
				break
			}
			time.Sleep(5 * time.Millisecond)
		}
		if err != nil {
			return
		}
		b, err = w.ws.Accept(ctx)
	default:
		inprocMu.Lock()
		a, err = lime.DialInProcess(w.ia, c.K)
		inprocMu.Unlock()
		if err != nil {
			return
		}
		b, err = w.inproc.Accept(ctx)
	}
	return
}

func classify(err error) string {
	if err == nil {
		return "ok"
	}
	s := err.Error()
	if strings.Contains(s, "deadline exceeded") || strings.Contains(s, "timeout") {
		return "timeout"
	}
	return "err"
}

// Replay performs the operations of the case's predicted history and records what really happens.
func (w *Worker) Replay(c Case) Result {
	if c.Cfg.Kind == "wsattr" {
		return replayAttr(c)
	}
	if c.Cfg.Kind == "wsclose" {
		return replayWsClose(c)
	}
	res := Result{N: c.N, Cfg: c.Cfg}
	a, b, err := w.pair(c.Cfg)
	if err != nil {
		res.Note = "setup: " + err.Error()
		return res
	}
	defer func() { _ = a.Close(); _ = b.Close() }()
	ends := map[string]lime.Transport{"A": a, "B": b}
	settle, wait := 10*time.Millisecond, 70*time.Millisecond
	if c.Cfg.Kind == "inproc" {
		settle, wait = 0, 15*time.Millisecond
	}
	nsent := 0
	peerClosed := map[string]bool{}
	res.Matched = true
	for _, p := range c.Obs {
		t := ends[p.Side]
		ev := Ev{K: "op", Op: p.Op, Side: p.Side}
		switch p.Op {
		case "send":
			nsent++
			ev.V = nsent
			m := &lime.Message{}
			m.ID = strconv.Itoa(nsent)
			m.SetContent(lime.TextDocument("x"))
			ctx, cancel := context.WithTimeout(context.Background(), wait)
			ev.Res = classify(t.Send(ctx, m))
			cancel()
		case "recv":
			w := wait
			if c.Cfg.Kind != "inproc" && peerClosed[p.Side] {
				w = 400 * time.Millisecond // the end of the stream must get here, however busy the machine is
			}
			ctx, cancel := context.WithTimeout(context.Background(), w)
			e, err := t.Receive(ctx)
			cancel()
			if err == nil {
				ev.Res = "val"
				if m, ok := e.(*lime.Message); ok {
					ev.V, _ = strconv.Atoi(m.ID)
				} else {
					ev.Res = "other"
				}
			} else {
				ev.Res = classify(err)
			}
		case "close":
			other := "A"
			if p.Side == "A" {
				other = "B"
			}
			peerClosed[other] = true
			ev.Res = classify(t.Close())
			if ev.Res == "timeout" {
				ev.Res = "err"
			}
		case "conn":
			ev.Res = "n"
			if t.Connected() {
				ev.Res = "y"
			}
		}
		res.Actual = append(res.Actual, ev)
		ok := ev.Res == p.Res || (p.Res == "ok|err" && (ev.Res == "ok" || ev.Res == "err"))
		if !ok || (ev.Res == "val" && ev.V != p.V) {
			res.Matched = false
			if res.Note == "" {
				res.Note = fmt.Sprintf("step %d %s(%s): model %s/%d, real %s/%d", len(res.Actual), p.Op, p.Side, p.Res, p.V, ev.Res, ev.V)
			}
		}
		if settle > 0 {
			time.Sleep(settle)
		}
	}
	return res
}

// replayAttr: what each end of a websocket connection reports as its encryption, for ws:// and wss://
// URLs, with and without a TLS configuration handed to the dialer (C09: both ends apply the same).
func replayAttr(c Case) Result {
	res := Result{N: c.N, Cfg: c.Cfg}
	bg := context.Background()
	wc := &lime.WebsocketConfig{}
	if c.Cfg.URL == "wss" {
		wc.TLSConfig = hs.ServerTLS
	}
	var lis lime.TransportListener
	var addr *net.TCPAddr
	var err error
	for try := 0; try < 50; try++ {
		addr = nextAddr()
		lis = lime.NewWebsocketTransportListener(wc)
		if err = lis.Listen(bg, addr); err == nil {
			break
		}
	}
	if err != nil {
		res.Note = "setup: " + err.Error()
		return res
	}
	defer lis.Close()
	var tc *tls.Config
	if c.Cfg.TLSCfg == "y" {
		tc = hs.ClientTLS
	}
	ctx, cancel := context.WithTimeout(bg, 3*time.Second)
	defer cancel()
	var ct lime.Transport
	for i := 0; i < 50; i++ {
		if ct, err = lime.DialWebsocket(ctx, c.Cfg.URL+"://"+addr.String()+"/", nil, tc); err == nil {
			break
		}
		time.Sleep(5 * time.Millisecond)
	}
	if err != nil {
		res.Note = "setup: dial: " + err.Error()
		return res
	}
	defer ct.Close()
	st, err := lis.Accept(ctx)
	if err != nil {
		res.Note = "setup: accept: " + err.Error()
		return res
	}
	defer st.Close()
	res.Actual = []Ev{{K: "op", Op: "attr", Side: c.Cfg.URL, Res: "cli:" + string(ct.Encryption()) + ",srv:" + string(st.Encryption())}}
	// what each end answers when a negotiation asks it to apply an encryption (C09: an end that accepts
	// a confirmed option has it in force afterwards; one that cannot apply it says so)
	for _, end := range []struct {
		name string
		t    lime.Transport
	}{{"cli", ct}, {"srv", st}} {
		for _, e := range []lime.SessionEncryption{lime.SessionEncryptionNone, lime.SessionEncryptionTLS} {
			out := "ok"
			if err := end.t.SetEncryption(ctx, e); err != nil {
				out = "err"
			}
			res.Actual = append(res.Actual, Ev{K: "op", Op: "setenc", Side: c.Cfg.URL,
				Res: end.name + ":" + string(e) + ":" + out + ":" + string(end.t.Encryption())})
		}
	}
	res.Matched = len(c.Obs) == len(res.Actual)
	for i := 0; res.Matched && i < len(c.Obs); i++ {
		res.Matched = c.Obs[i].Res == res.Actual[i].Res && c.Obs[i].Op == res.Actual[i].Op
	}
	return res
}

// replayWsClose: the server side of a websocket connection is closed through the transport; a raw peer
// must see the TCP connection itself end, not only a close frame (a socket left open is a leak, and a
// client left waiting on a connection nobody serves).
func replayWsClose(c Case) Result {
	res := Result{N: c.N, Cfg: c.Cfg}
	bg := context.Background()
	var lis lime.TransportListener
	var addr *net.TCPAddr
	var err error
	for try := 0; try < 50; try++ {
		addr = nextAddr()
		lis = lime.NewWebsocketTransportListener(&lime.WebsocketConfig{})
		if err = lis.Listen(bg, addr); err == nil {
			break
		}
	}
	if err != nil {
		res.Note = "setup: " + err.Error()
		return res
	}
	defer lis.Close()
	d := websocket.Dialer{Subprotocols: []string{"lime"}, HandshakeTimeout: 2 * time.Second}
	var cl *websocket.Conn
	for i := 0; i < 50; i++ {
		if cl, _, err = d.Dial("ws://"+addr.String()+"/", nil); err == nil {
			break
		}
		time.Sleep(5 * time.Millisecond)
	}
	if err != nil {
		res.Note = "setup: dial: " + err.Error()
		return res
	}
	defer cl.Close()
	ctx, cancel := context.WithTimeout(bg, 3*time.Second)
	st, err := lis.Accept(ctx)
	cancel()
	if err != nil {
		res.Note = "setup: accept: " + err.Error()
		return res
	}
	_ = st.Close()
	// whatever frames are still to be read, then the end of the TCP stream
	raw := cl.UnderlyingConn()
	out := "open"
	buf := make([]byte, 4096)
	raw.SetReadDeadline(time.Now().Add(800 * time.Millisecond))
	for {
		_, rerr := raw.Read(buf)
		if rerr == nil {
			continue
		}
		if ne, ok := rerr.(net.Error); ok && ne.Timeout() {
			out = "open"
		} else {
			out = "closed"
		}
		break
	}
	res.Actual = []Ev{{K: "op", Op: "attr", Side: "wsclose", Res: out}}
	res.Matched = len(c.Obs) == 1 && c.Obs[0].Res == out
	return res
}
