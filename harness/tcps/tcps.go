// Package tcps replays TLC-generated behaviours of TcpStream.tla against the
// real TCP transport running over scripted, fault-injecting connections.
package tcps

import (
	"context"
	"encoding/json"
	"errors"
	"fmt"
	"io"
	"net"
	"strconv"
	"strings"
	"sync"
	"time"

	lime "github.com/takenet/lime-go"
)

type Cfg struct {
	Lens      []int  `json:"lens"`
	U         int    `json:"U"`
	L         int    `json:"L"`
	Faultfree string `json:"faultfree"`
	Junk      int    `json:"junk,omitempty"`    // loop modes: well-formed JSON that is no envelope precedes envelope number Junk
	JunkLen   int    `json:"junklen,omitempty"` // its size in units
	Trace     string `json:"trace,omitempty"`   // loop modes: "y" = a TraceWriter is installed
}

// a trace writer that discards what it is given
type nullTrace struct{ s, r io.Writer }

func (t *nullTrace) SendWriter() *io.Writer    { return &t.s }
func (t *nullTrace) ReceiveWriter() *io.Writer { return &t.r }

type Step struct {
	R string `json:"r"`
	N int    `json:"n"`
}

type Plan struct {
	W   []Step `json:"w"`
	R   []Step `json:"r"`
	Cut int    `json:"cut"`
}

// Event mirrors T0 of TcpProps.tla.
type Event struct {
	K     string   `json:"k"`
	Env   int      `json:"env"`
	Res   string   `json:"res"`
	Used  int      `json:"used"`
	Asked int      `json:"asked"` // the largest single read the receive asked the connection for
	Segs  [][3]int `json:"segs"`
}

type Case struct {
	Mode string  `json:"mode,omitempty"` // "" = scripted connections; "loop-accept" / "loop-dial" = real sockets
	N    int     `json:"n"`
	Cfg  Cfg     `json:"cfg"`
	Plan Plan    `json:"plan"`
	Obs  []Event `json:"obs"`
}

type Result struct {
	N      int     `json:"n"`
	Cfg    Cfg     `json:"cfg"`
	Match  bool    `json:"match"`
	Actual []Event `json:"actual"`
	Note   string  `json:"note,omitempty"`
}

// manualCtx is a context the scripted connection ends on cue, either as a
// cancellation or as an expired deadline.
type manualCtx struct {
	mu   sync.Mutex
	done chan struct{}
	err  error
}

func newManualCtx() *manualCtx                         { return &manualCtx{done: make(chan struct{})} }
func (c *manualCtx) Deadline() (time.Time, bool)       { return time.Time{}, false }
func (c *manualCtx) Done() <-chan struct{}             { return c.done }
func (c *manualCtx) Value(key interface{}) interface{} { return nil }
func (c *manualCtx) Err() error {
	c.mu.Lock()
	defer c.mu.Unlock()
	return c.err
}
func (c *manualCtx) end(err error) {
	c.mu.Lock()
	defer c.mu.Unlock()
	if c.err == nil {
		c.err = err
		close(c.done)
	}
}

type timeoutError struct{}

func (timeoutError) Error() string   { return "faultconn: i/o timeout" }
func (timeoutError) Timeout() bool   { return true }
func (timeoutError) Temporary() bool { return true }

type addr struct{}

func (addr) Network() string { return "fault" }
func (addr) String() string  { return "fault" }

// writeConn scripts the results of Write calls and records what it accepted.
type writeConn struct {
	plan   []Step
	wire   []byte
	segs   [][3]int
	curEnv int
	curEnc []byte
	note   string
	calls  int
	cancel func() // ends the context of the Send in progress
}

func (c *writeConn) push(k, from, to int) {
	if from == to {
		return
	}
	if n := len(c.segs); n > 0 && c.segs[n-1][0] == k && c.segs[n-1][2] == from {
		c.segs[n-1][2] = to
		return
	}
	c.segs = append(c.segs, [3]int{k, from, to})
}

func (c *writeConn) Write(b []byte) (int, error) {
	c.calls++
	if c.calls > 50 {
		return 0, errors.New("faultconn: too many write calls")
	}
	// which bytes of the current envelope's encoding is the caller offering?
	off := len(c.curEnc) - len(b)
	if off < 0 || string(c.curEnc[off:]) != string(b) {
		c.note += fmt.Sprintf("write-not-a-suffix(env=%d,len=%d);", c.curEnv, len(b))
		off = 0
	}
	st := Step{R: "full", N: len(b)}
	if len(c.plan) > 0 {
		st = c.plan[0]
		c.plan = c.plan[1:]
	}
	n := st.N
	if n > len(b) {
		n = len(b)
	}
	if st.R == "full" {
		n = len(b)
	}
	c.wire = append(c.wire, b[:n]...)
	c.push(c.curEnv, off, off+n)
	switch st.R {
	case "short":
		return n, timeoutError{}
	case "ctx": // the write times out and the context of the Send has ended meanwhile
		if c.cancel != nil {
			c.cancel()
		}
		return n, timeoutError{}
	case "hard":
		return n, errors.New("faultconn: connection reset")
	}
	return n, nil
}
func (c *writeConn) Read(b []byte) (int, error)         { select {} }
func (c *writeConn) Close() error                       { return nil }
func (c *writeConn) LocalAddr() net.Addr                { return addr{} }
func (c *writeConn) RemoteAddr() net.Addr               { return addr{} }
func (c *writeConn) SetDeadline(t time.Time) error      { return nil }
func (c *writeConn) SetReadDeadline(t time.Time) error  { return nil }
func (c *writeConn) SetWriteDeadline(t time.Time) error { return nil }

// readConn serves a fixed byte stream according to a script of Read results.
type readConn struct {
	plan   []Step
	data   []byte
	pos    int
	used   int
	asked  int
	note   string
	calls  int
	cancel func() // ends the context of the Receive in progress
}

func (c *readConn) Read(p []byte) (int, error) {
	c.calls++
	if c.calls > 200 {
		return 0, errors.New("faultconn: too many read calls")
	}
	if len(p) > c.asked {
		c.asked = len(p)
	}
	rem := len(c.data) - c.pos
	var st Step
	if len(c.plan) > 0 {
		st = c.plan[0]
		c.plan = c.plan[1:]
	} else if rem > 0 {
		st = Step{R: "data", N: rem}
	} else {
		st = Step{R: "eof"}
	}
	n := st.N
	if n > rem {
		n = rem
	}
	if n > len(p) {
		c.note += fmt.Sprintf("read-request-smaller(%d<%d);", len(p), n)
		n = len(p)
	}
	switch st.R {
	case "timeout":
		return 0, timeoutError{}
	case "ctxend":
		if c.cancel != nil {
			c.cancel()
		}
		return 0, timeoutError{}
	case "eof":
		return 0, io.EOF
	}
	copy(p, c.data[c.pos:c.pos+n])
	c.pos += n
	c.used += n
	switch st.R {
	case "data+timeout":
		return n, timeoutError{}
	case "data+eof":
		return n, io.EOF
	}
	return n, nil
}
func (c *readConn) Write(b []byte) (int, error)        { return len(b), nil }
func (c *readConn) Close() error                       { return nil }
func (c *readConn) LocalAddr() net.Addr                { return addr{} }
func (c *readConn) RemoteAddr() net.Addr               { return addr{} }
func (c *readConn) SetDeadline(t time.Time) error      { return nil }
func (c *readConn) SetReadDeadline(t time.Time) error  { return nil }
func (c *readConn) SetWriteDeadline(t time.Time) error { return nil }

// envelope k, exactly size bytes of JSON. From three units on it is a message
// whose last unit is a nested object that is itself a valid envelope encoding:
// a receiver that resynchronised there would fabricate envelope "F<k>".
func mkEnv(k, size int) (interface{}, []byte, error) {
	prefix := strconv.Itoa(k) + "-"
	if size >= 96 {
		build := func(pad string) *lime.Message {
			m := &lime.Message{}
			m.ID = prefix
			doc := lime.JsonDocument{"a": pad, "z": map[string]interface{}{"id": "F" + strconv.Itoa(k%10), "event": "received"}}
			m.Type = doc.MediaType()
			m.Content = &doc
			return m
		}
		base, err := json.Marshal(build(""))
		if err != nil {
			return nil, nil, err
		}
		if size < len(base) {
			return nil, nil, fmt.Errorf("envelope size %d too small for the nested layout", size)
		}
		m := build(strings.Repeat("a", size-len(base)))
		enc, err := json.Marshal(m)
		if err != nil {
			return nil, nil, err
		}
		if len(enc) != size {
			return nil, nil, fmt.Errorf("size mismatch %d != %d", len(enc), size)
		}
		return m, append(enc, '\n'), nil
	}
	n := &lime.Notification{Event: lime.NotificationEventReceived}
	n.ID = "x"
	base, err := n.MarshalJSON()
	if err != nil {
		return nil, nil, err
	}
	pad := size - len(base) + 1
	if pad < len(prefix) {
		return nil, nil, fmt.Errorf("envelope size %d too small", size)
	}
	n.ID = prefix + strings.Repeat("a", pad-len(prefix))
	enc, err := n.MarshalJSON()
	if err != nil {
		return nil, nil, err
	}
	if len(enc) != size {
		return nil, nil, fmt.Errorf("size mismatch %d != %d", len(enc), size)
	}
	return n, append(enc, '\n'), nil
}

func sendEnv(ctx context.Context, t lime.Transport, e interface{}) error {
	switch v := e.(type) {
	case *lime.Message:
		return t.Send(ctx, v)
	case *lime.Notification:
		return t.Send(ctx, v)
	}
	return errors.New("unknown envelope")
}

func envOf(e interface{}) int {
	var id string
	switch v := e.(type) {
	case *lime.Notification:
		id = v.ID
	case *lime.Message:
		id = v.ID
	default:
		return -1
	}
	i := strings.IndexByte(id, '-')
	if i <= 0 {
		return -1
	}
	k, err := strconv.Atoi(id[:i])
	if err != nil {
		return -1
	}
	return k
}

// Replay executes one case: the sender writes through a scripted connection,
// then the receiver reads the accepted bytes through another one.
func Replay(c Case) (res Result) {
	res = Result{N: c.N, Cfg: c.Cfg}
	defer func() {
		if p := recover(); p != nil { // the transport is called from this goroutine: a panic in it ends the case, not the batch
			res.Actual = append(res.Actual, Event{K: "panic", Res: fmt.Sprint(p), Segs: [][3]int{}})
			res.Match = false
		}
	}()
	wc := &writeConn{plan: append([]Step(nil), c.Plan.W...)}
	snd := lime.VerifNewTCPTransport(wc, &lime.TCPConfig{}, false)
	for k := 1; k <= len(c.Cfg.Lens); k++ {
		n, enc, err := mkEnv(k, c.Cfg.U*c.Cfg.Lens[k-1])
		if err != nil {
			res.Note = err.Error()
			return res
		}
		wc.curEnv, wc.curEnc = k, enc
		sctx := newManualCtx()
		endWith := context.DeadlineExceeded
		if (c.N+k)%2 == 1 {
			endWith = context.Canceled
		}
		wc.cancel = func() { sctx.end(endWith) }
		err = sendEnv(sctx, snd, n)
		if err == nil {
			res.Actual = append(res.Actual, Event{K: "send", Env: k, Res: "ok", Segs: [][3]int{}})
		} else {
			// the application goes on with its next envelope (the transport keeps failing: its encoder
			// holds on to the first error)
			res.Actual = append(res.Actual, Event{K: "send", Env: k, Res: "err", Segs: [][3]int{}})
		}
	}
	segs := wc.segs
	if segs == nil {
		segs = [][3]int{}
	}
	res.Actual = append(res.Actual, Event{K: "wire", Segs: segs})
	cut := c.Plan.Cut
	if cut > len(wc.wire) {
		cut = len(wc.wire)
	}
	rc := &readConn{plan: append([]Step(nil), c.Plan.R...), data: wc.wire[:cut]}
	rcv := lime.VerifNewTCPTransport(rc, &lime.TCPConfig{ReadLimit: int64(c.Cfg.L)}, true)
	failed := false
	for i := 0; i < len(c.Cfg.Lens)+4; i++ {
		rc.used = 0
		rc.asked = 0
		mctx := newManualCtx()
		endWith := context.DeadlineExceeded
		if c.N%2 == 1 {
			endWith = context.Canceled
		}
		rc.cancel = func() { mctx.end(endWith) }
		var rctx context.Context = mctx
		hasCtxEnd := false
		for _, st := range c.Plan.R {
			if st.R == "ctxend" {
				hasCtxEnd = true
			}
		}
		var dcancel context.CancelFunc
		if !hasCtxEnd && c.N%3 == 0 {
			// a context with a deadline of its own, comfortably in the future: transient timeouts of the
			// connection are no reason to give up before it
			rctx, dcancel = context.WithTimeout(context.Background(), 3*time.Second)
		}
		e, err := rcv.Receive(rctx)
		if dcancel != nil {
			dcancel()
		}
		if err != nil {
			res.Actual = append(res.Actual, Event{K: "recv", Res: "err", Used: rc.used, Asked: rc.asked, Segs: [][3]int{}})
			if failed {
				break // the one retry after a failure
			}
			failed = true
			continue
		}
		res.Actual = append(res.Actual, Event{K: "recv", Res: "ok", Env: envOf(e), Used: rc.used, Asked: rc.asked, Segs: [][3]int{}})
		if failed {
			break
		}
	}
	res.Note += wc.note + rc.note
	res.Match = same(c.Obs, res.Actual)
	return res
}

func same(a, b []Event) bool {
	if len(a) != len(b) {
		return false
	}
	for i := range a {
		if a[i].K != b[i].K || a[i].Env != b[i].Env || a[i].Res != b[i].Res || a[i].Used != b[i].Used ||
			len(a[i].Segs) != len(b[i].Segs) {
			return false
		}
		for j := range a[i].Segs {
			if a[i].Segs[j] != b[i].Segs[j] {
				return false
			}
		}
	}
	return true
}

// ReplayLoop runs one configuration over real loopback sockets, through the
// constructors applications use (listener Accept and DialTcp): the raw peer
// writes the whole stream, the transport receives until it fails. There is no
// prediction; the recorded history is validated by the monitor alone.
func ReplayLoop(c Case, dial bool) Result {
	res := Result{N: c.N, Cfg: c.Cfg}
	var stream []byte
	var segs [][3]int
	for k := 1; k <= len(c.Cfg.Lens); k++ {
		_, enc, err := mkEnv(k, c.Cfg.U*c.Cfg.Lens[k-1])
		if err != nil {
			res.Note = err.Error()
			return res
		}
		if c.Cfg.Junk == k && c.Cfg.JunkLen > 0 {
			// a JSON object of the given size that is not an envelope: rejected, and the stream goes on
			n := c.Cfg.U * c.Cfg.JunkLen
			stream = append(stream, []byte(`{"zz":"`+strings.Repeat("j", n-10)+`"}`+"\n")...)
		}
		stream = append(stream, enc...)
		segs = append(segs, [3]int{k, 0, len(enc)})
		res.Actual = append(res.Actual, Event{K: "send", Env: k, Res: "ok", Segs: [][3]int{}})
	}
	res.Actual = append(res.Actual, Event{K: "wire", Segs: segs})
	ctx, cancel := context.WithTimeout(context.Background(), 10*time.Second)
	defer cancel()
	cfg := &lime.TCPConfig{ReadLimit: int64(c.Cfg.L)}
	if c.Cfg.Trace == "y" {
		cfg.TraceWriter = &nullTrace{s: io.Discard, r: io.Discard}
	}
	var rcv lime.Transport
	var raw net.Conn
	if dial {
		l, err := net.Listen("tcp", "127.0.0.1:0")
		if err != nil {
			res.Note = err.Error()
			return res
		}
		defer l.Close()
		acc := make(chan net.Conn, 1)
		go func() {
			cn, err := l.Accept()
			if err == nil {
				acc <- cn
			}
		}()
		t, err := lime.DialTcp(ctx, l.Addr(), cfg)
		if err != nil {
			res.Note = err.Error()
			return res
		}
		rcv = t
		select {
		case raw = <-acc:
		case <-ctx.Done():
			res.Note = "accept timeout"
			return res
		}
	} else {
		var lis lime.TransportListener
		var addr *net.TCPAddr
		var err error
		for try := 0; try < 5; try++ {
			pl, e := net.Listen("tcp", "127.0.0.1:0")
			if e != nil {
				res.Note = e.Error()
				return res
			}
			addr = pl.Addr().(*net.TCPAddr)
			pl.Close()
			lis = lime.NewTCPTransportListener(cfg)
			if err = lis.Listen(ctx, addr); err == nil {
				break
			}
		}
		if err != nil {
			res.Note = err.Error()
			return res
		}
		defer lis.Close()
		raw, err = net.DialTimeout("tcp", addr.String(), 2*time.Second)
		if err != nil {
			res.Note = err.Error()
			return res
		}
		rcv, err = lis.Accept(ctx)
		if err != nil {
			res.Note = err.Error()
			return res
		}
	}
	defer raw.Close()
	go func() {
		raw.Write(stream)
		if tc, ok := raw.(*net.TCPConn); ok {
			tc.CloseWrite()
		}
	}()
	failed := false
	junkSeen := c.Cfg.Junk == 0
	for i := 0; i < len(c.Cfg.Lens)+5; i++ {
		e, err := rcv.Receive(ctx)
		if err != nil {
			res.Actual = append(res.Actual, Event{K: "recv", Res: "err", Segs: [][3]int{}})
			if !junkSeen {
				junkSeen = true // the rejection of the junk item: the caller keeps using the transport
				continue
			}
			if failed {
				break
			}
			failed = true
			continue
		}
		res.Actual = append(res.Actual, Event{K: "recv", Res: "ok", Env: envOf(e), Segs: [][3]int{}})
		if failed {
			break
		}
	}
	if rcv.Connected() {
		rcv.Close()
	}
	res.Match = true
	return res
}
