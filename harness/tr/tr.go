// Package tr holds the uniform observation-event record shared with the
// TLA+ specifications (HsProps.tla: E0) and ndjson trace output.
package tr

import (
	"bufio"
	"encoding/json"
	"os"
	"sync"
)

// Event mirrors E0 of HsProps.tla. Every field is always written so that
// TLC can access any field of any record read back from the trace.
type Event struct {
	K      string `json:"k"`
	Kind   string `json:"kind"`
	St     string `json:"st"`
	ID     string `json:"id"`
	Enc    string `json:"enc"`
	Comp   string `json:"comp"`
	Eopts  string `json:"eopts"`
	Copts  string `json:"copts"`
	Sopts  string `json:"sopts"`
	Scheme string `json:"scheme"`
	Ident  string `json:"ident"`
	Cred   string `json:"cred"`
	Res    string `json:"res"`
	Frm    string `json:"frm"`
	To     string `json:"to"`
	Reason string `json:"reason"`
	Wire   string `json:"wire"`
	Tenc   string `json:"tenc"`
	Op     string `json:"op"`
}

// Writer is a concurrency-safe ndjson writer.
type Writer struct {
	mu sync.Mutex
	f  *os.File
	w  *bufio.Writer
}

func NewWriter(path string) (*Writer, error) {
	f, err := os.Create(path)
	if err != nil {
		return nil, err
	}
	return &Writer{f: f, w: bufio.NewWriterSize(f, 1<<20)}, nil
}

// WriteAll writes the values, one JSON document per line, atomically with
// respect to other WriteAll calls.
func (w *Writer) WriteAll(vs ...interface{}) error {
	w.mu.Lock()
	defer w.mu.Unlock()
	for _, v := range vs {
		b, err := json.Marshal(v)
		if err != nil {
			return err
		}
		w.w.Write(b)
		w.w.WriteByte('\n')
	}
	return nil
}

func (w *Writer) Close() error {
	w.mu.Lock()
	defer w.mu.Unlock()
	if err := w.w.Flush(); err != nil {
		return err
	}
	return w.f.Close()
}
