package hs

import (
	"context"
	"crypto/tls"
	"encoding/json"
	"errors"
	"fmt"
	"net"
	"strings"
	"sync"
	"sync/atomic"
	"time"

	lime "github.com/takenet/lime-go"
	"verif/harness/pipe"
	"verif/harness/tr"
)

var MeNode = lime.Node{Identity: lime.Identity{Name: "client-me", Domain: Domain}, Instance: "assigned-by-server"}
var MeIdentity = lime.Identity{Name: "client-me", Domain: Domain}

func sidOf(c string) string {
	switch c {
	case "s1":
		return "5e551041-aaaa-4000-8000-000000000001"
	case "s2":
		return "5e551041-bbbb-4000-8000-000000000002"
	}
	return ""
}

func sidClass(id string) string {
	switch id {
	case "":
		return "none"
	case sidOf("s1"):
		return "s1"
	case sidOf("s2"):
		return "s2"
	}
	return "other"
}

func strList(s string) []string {
	if s == "" {
		return nil
	}
	return strings.Split(s, ",")
}

// ConcretiseSrv renders an abstract server symbol as the bytes a raw server writes.
func ConcretiseSrv(e tr.Event) []byte {
	switch e.Kind {
	case "garbage":
		return []byte("}{ this is not json\n")
	case "junk":
		return []byte(`{"foo":1}` + "\n")
	case "msg":
		return []byte(`{"id":"m1","type":"text/plain","content":"hello"}` + "\n")
	case "ses":
		m := map[string]interface{}{"state": e.St}
		if id := sidOf(e.ID); id != "" {
			m["id"] = id
		}
		if e.Frm == "srv" {
			m["from"] = ServerNode.String()
		}
		if e.To == "me" {
			m["to"] = MeNode.String()
		}
		if l := strList(e.Eopts); l != nil {
			m["encryptionOptions"] = l
		}
		if l := strList(e.Copts); l != nil {
			m["compressionOptions"] = l
		}
		if e.Enc != "" {
			m["encryption"] = e.Enc
		}
		if e.Comp != "" {
			m["compression"] = e.Comp
		}
		if l := strList(e.Sopts); l != nil {
			m["schemeOptions"] = l
		}
		if e.Scheme != "" {
			m["scheme"] = e.Scheme
		}
		if e.Cred == "rt" {
			m["authentication"] = map[string]interface{}{"password": credB64("challenge")}
		}
		if e.Reason == "y" {
			m["reason"] = map[string]interface{}{"code": 1, "description": "refused"}
		}
		b, _ := json.Marshal(m)
		return append(b, '\n')
	}
	panic("concretiseSrv: unknown symbol kind " + e.Kind)
}

// AbstractCli projects a JSON value written by the client to an `out` event.
func AbstractCli(raw []byte, wire string) tr.Event {
	ev := Abstract(raw, "", wire, "")
	if ev.Kind != "ses" {
		return ev
	}
	var m map[string]interface{}
	_ = json.Unmarshal(raw, &m)
	id, _ := m["id"].(string)
	ev.ID = sidClass(id)
	ev.Frm, ev.To = "", ""
	if f, ok := m["from"].(string); ok && f != "" {
		if strings.HasPrefix(f, MeIdentity.String()) {
			ev.Ident = "me"
		} else {
			ev.Ident = "other"
		}
	}
	if t, ok := m["to"].(string); ok && t != "" {
		ev.To = "other"
	}
	ev.Cred = ""
	if a, ok := m["authentication"].(map[string]interface{}); ok {
		ev.Cred = "?"
		if p, ok := a["password"].(string); ok {
			switch p {
			case credB64("p"):
				ev.Cred = "p"
			case credB64("q"):
				ev.Cred = "q"
			}
		}
	}
	return ev
}

type cliRun struct {
	c      Case
	srvEnd *pipe.End
	cliEnd *pipe.End
	cc     *lime.ClientChannel
	t      lime.Transport

	mu     sync.Mutex
	actual []tr.Event

	retCh     chan struct{}
	retSes    *lime.Session
	retErr    error
	panicVal  interface{}
	returned  int32
	retLogged bool

	srvConn net.Conn
	wire    string
	rd      *rawReader
	note    string

	awaiting int32 // EstablishSession reached the wait on the receiver's session stream
}

var cliRuns sync.Map // lime.Transport -> *cliRun

func init() {
	prev := lime.VerifHook
	lime.VerifHook = func(point string, args ...interface{}) {
		if point == "receiveSession.established" && len(args) == 1 {
			if v, ok := cliRuns.Load(args[0]); ok {
				atomic.StoreInt32(&v.(*cliRun).awaiting, 1)
			}
		}
		if prev != nil {
			prev(point, args...)
		}
	}
}

func (r *cliRun) log(e tr.Event) {
	r.mu.Lock()
	r.actual = append(r.actual, e)
	r.mu.Unlock()
}
func (r *cliRun) reserve() int {
	r.mu.Lock()
	defer r.mu.Unlock()
	r.actual = append(r.actual, tr.Event{K: "reserved"})
	return len(r.actual) - 1
}
func (r *cliRun) set(i int, e tr.Event) {
	r.mu.Lock()
	r.actual[i] = e
	r.mu.Unlock()
}

func (r *cliRun) startReader() {
	rd := &rawReader{conn: r.srvConn, wire: r.wire, stopped: make(chan struct{})}
	r.rd = rd
	go func() {
		defer close(rd.stopped)
		defer atomic.StoreInt32(&rd.done, 1)
		dec := json.NewDecoder(rd.conn)
		for {
			var raw json.RawMessage
			err := dec.Decode(&raw)
			if err == nil {
				r.log(AbstractCli(raw, rd.wire))
				continue
			}
			if errors.Is(err, pipe.ErrKicked) || errors.Is(err, net.ErrClosed) {
				return
			}
			var se *json.SyntaxError
			if errors.As(err, &se) {
				r.log(tr.Event{K: "out", Kind: "bin", Wire: rd.wire})
				buf := make([]byte, 4096)
				for {
					if _, e2 := rd.conn.Read(buf); e2 != nil {
						if errors.Is(e2, pipe.ErrKicked) || errors.Is(e2, net.ErrClosed) {
							return
						}
						break
					}
				}
			}
			r.log(tr.Event{K: "closed"})
			return
		}
	}()
}

func (r *cliRun) stopReader() {
	if r.rd != nil && atomic.LoadInt32(&r.rd.done) == 0 {
		r.srvEnd.Kick()
		<-r.rd.stopped
		r.srvEnd.Unkick()
	}
}

func (r *cliRun) receiverRunning() bool {
	if r.cc.State() != lime.SessionStateEstablished {
		return false
	}
	select {
	case <-r.cc.RcvDone():
		return false
	default:
		return true
	}
}

// quiesce waits until the client is blocked reading (or gone) and the raw
// server consumed everything the client wrote. expectRet: the model says the
// call returns in this step, so do not settle for a blocked receiver.
func (r *cliRun) quiesce(expectRet bool) bool {
	deadline := time.Now().Add(10 * time.Second)
	retWait := time.Now().Add(2 * time.Second)
	for {
		ch := r.cliEnd.Changed()
		cs := r.cliEnd.Status()
		ss := r.srvEnd.Status()
		ret := atomic.LoadInt32(&r.returned) == 1
		inactive := ret && !r.receiverRunning()
		blocked := cs.Buffered == 0 && cs.Waiting && !cs.PeerClosed
		// while the call is still running with an established channel, the blocked
		// reader is the receiver goroutine: the call itself is quiescent only once
		// it reached its wait on the receiver's session stream
		parked := r.cc.State() != lime.SessionStateEstablished || atomic.LoadInt32(&r.awaiting) == 1
		cliQuiet := inactive || (ret && blocked) ||
			(!ret && blocked && parked && (!expectRet || time.Now().After(retWait)))
		srvQuiet := atomic.LoadInt32(&r.rd.done) == 1 || (ss.Buffered == 0 && ss.Waiting && !ss.PeerClosed)
		if cliQuiet && srvQuiet {
			if r.cliEnd.Status() == cs && r.srvEnd.Status() == ss {
				return true
			}
			continue
		}
		if time.Now().After(deadline) {
			return false
		}
		t := time.NewTimer(2 * time.Millisecond)
		select {
		case <-ch:
		case <-t.C:
		}
		t.Stop()
	}
}

func nodeClassCli(n lime.Node) string {
	switch n {
	case lime.Node{}:
		return ""
	case ServerNode:
		return "srv"
	case MeNode:
		return "me"
	}
	return "other"
}

func (r *cliRun) afterStep(expectRet bool) {
	if !r.quiesce(expectRet) {
		r.note += "quiesce-timeout;"
	}
	if !r.retLogged && atomic.LoadInt32(&r.returned) == 1 {
		r.retLogged = true
		if r.panicVal != nil {
			r.log(tr.Event{K: "panic", Res: fmt.Sprint(r.panicVal)})
		} else {
			ev := tr.Event{K: "ret", Op: string(r.cc.State()), Tenc: string(r.t.Encryption()), Reason: "n"}
			if r.cc.Established() {
				ev.Reason = "y"
			}
			if r.retErr != nil {
				ev.Res = "err"
			} else {
				ev.Res = "nil"
				if r.retSes != nil {
					ev.St = string(r.retSes.State)
				}
				ev.ID = sidClass(r.cc.ID())
				if ev.St == string(lime.SessionStateEstablished) {
					ev.To = nodeClassCli(r.cc.LocalNode())
					ev.Frm = nodeClassCli(r.cc.RemoteNode())
				}
			}
			r.log(ev)
		}
	}
	st := r.cc.State()
	r.log(tr.Event{K: "state", St: string(st)})
	probe(r.cc, st, r.reserve, r.set)
	if !r.quiesce(false) {
		r.note += "quiesce-timeout;"
	}
}

// ReplayClient replays one generated behaviour of HsClient against a real
// ClientChannel running over the real TCP transport on an in-memory connection.
func ReplayClient(c Case) Result {
	r := &cliRun{c: c, wire: "clear"}
	r.cliEnd, r.srvEnd = pipe.New(0, false)
	r.srvConn = r.srvEnd
	tcfg := &lime.TCPConfig{}
	if c.Cfg.Tk == "tcp_tls" {
		tcfg.TLSConfig = ClientTLS
	}
	r.t = lime.VerifNewTCPTransport(r.cliEnd, tcfg, false)
	r.cc = lime.NewClientChannel(r.t, 16)
	cliRuns.Store(r.t, r)
	defer cliRuns.Delete(r.t)
	r.retCh = make(chan struct{})
	esel := c.Cfg.Esel
	encSel := func(opts []lime.SessionEncryption) lime.SessionEncryption {
		if esel == "tls" {
			for _, o := range opts {
				if o == lime.SessionEncryptionTLS {
					return o
				}
			}
		}
		return lime.SessionEncryptionNone
	}
	compSel := func(opts []lime.SessionCompression) lime.SessionCompression { return lime.SessionCompressionNone }
	auth := func(schemes []lime.AuthenticationScheme, rt lime.Authentication) lime.Authentication {
		a := &lime.PlainAuthentication{}
		if rt == nil {
			a.SetPasswordAsBase64("pw-p")
		} else {
			a.SetPasswordAsBase64("pw-q")
		}
		return a
	}
	ctx, cancel := context.WithTimeout(context.Background(), 60*time.Second)
	defer cancel()
	r.startReader()
	go func() {
		defer close(r.retCh)
		defer atomic.StoreInt32(&r.returned, 1)
		defer func() {
			if p := recover(); p != nil {
				r.panicVal = p
			}
		}()
		r.retSes, r.retErr = r.cc.EstablishSession(ctx, compSel, encSel, MeIdentity, auth, "home")
	}()
	stepHasRet := func(i int) bool {
		for j := i + 1; j < len(c.Obs) && c.Obs[j].K != "in" && c.Obs[j].K != "end"; j++ {
			if c.Obs[j].K == "ret" || c.Obs[j].K == "panic" {
				return true
			}
		}
		return false
	}
	stepHasBin := func(i int) bool {
		for j := i + 1; j < len(c.Obs) && c.Obs[j].K != "in" && c.Obs[j].K != "end"; j++ {
			if c.Obs[j].K == "out" && c.Obs[j].Kind == "bin" {
				return true
			}
		}
		return false
	}
	r.afterStep(false)
	for i, e := range c.Obs {
		if e.K != "in" {
			if e.K == "end" {
				r.log(tr.Event{K: "end", Res: "quiet"})
			}
			continue
		}
		switch e.Kind {
		case "eof":
			r.stopReader()
			ev := e
			ev.Wire = r.wire
			r.log(ev)
			r.srvEnd.Close()
			atomic.StoreInt32(&r.rd.done, 1)
		case "tlsup":
			r.stopReader()
			ev := e
			ts := tls.Server(r.srvEnd, ServerTLS)
			ts.SetDeadline(time.Now().Add(5 * time.Second))
			err := ts.Handshake()
			ts.SetDeadline(time.Time{})
			if err == nil {
				r.wire = "tls"
				r.srvConn = ts
				ev.Wire = "tls"
			} else {
				ev.Wire = "clear"
				ev.Res = "hsfail"
			}
			r.log(ev)
			r.startReader()
		default:
			ev := e
			ev.Wire = r.wire
			r.log(ev)
			startsTLS := stepHasBin(i)
			if !startsTLS && r.wire == "clear" && atomic.LoadInt32(&r.rd.done) == 1 && !r.srvEnd.Status().PeerClosed {
				// the JSON reader stepped aside for a TLS handshake that this symbol
				// does not perform: drop the ClientHello (already logged) and watch
				// what the client writes in clear from here on
				r.srvEnd.Discard()
				r.startReader()
			}
			if startsTLS {
				// the client is about to write a TLS ClientHello: it must stay in
				// the pipe for the handshake, so the JSON reader steps aside
				r.stopReader()
				atomic.StoreInt32(&r.rd.done, 1)
			}
			r.srvConn.SetWriteDeadline(time.Now().Add(2 * time.Second))
			if _, err := r.srvConn.Write(ConcretiseSrv(e)); err != nil {
				r.note += "server-write-failed;"
			}
			if startsTLS {
				if !r.quiesce(false) {
					r.note += "quiesce-timeout;"
				}
				if r.srvEnd.Status().Buffered > 0 {
					r.log(tr.Event{K: "out", Kind: "bin", Wire: r.wire})
				}
			}
		}
		r.afterStep(stepHasRet(i))
	}
	r.stopReader()
	r.srvEnd.Close()
	select {
	case <-r.retCh:
	case <-time.After(10 * time.Second):
		r.note += "establish-never-returned;"
	}
	_ = r.cliEnd.Close()
	res := Result{N: c.N, Cfg: c.Cfg, Actual: r.actual, Note: r.note}
	res.Match = sameObs(c.Obs, r.actual)
	return res
}
