package hs

import (
	"bytes"
	"context"
	"crypto/tls"
	"encoding/json"
	"errors"
	"fmt"
	"net"
	"runtime"
	"sort"
	"strings"
	"sync"
	"sync/atomic"
	"time"

	lime "github.com/takenet/lime-go"
	"verif/harness/tr"
)

// ---- shared real Servers, one per configuration ---------------------------

type liveServer struct {
	srv  *lime.Server
	addr *net.TCPAddr
	done chan error
}

type seqEvent struct {
	seq int64
	ev  tr.Event
}

// srvRun is the state of one server-flavour case.
type srvRun struct {
	c     Case
	names Names
	mu    sync.Mutex
	evs   []seqEvent
	sid   string
	wire  string
	authQ []string
	regQ  []string
	note  string
	res   *Result
	nOut  int32 // out/closed/cb/deliver events logged so far
	rst   *tr.Event
}

var (
	seqCounter int64
	srvMu      sync.Mutex
	servers    = map[Cfg]*liveServer{}
	runsByN    sync.Map // int -> *srvRun
	runsBySid  sync.Map // string -> *srvRun
	orphanMu   sync.Mutex
	orphans    = map[string][]seqEvent{} // events for a session id no case has claimed yet
	allRuns    []*srvRun
)

func (r *srvRun) log(e tr.Event) {
	s := atomic.AddInt64(&seqCounter, 1)
	r.mu.Lock()
	r.evs = append(r.evs, seqEvent{s, e})
	r.mu.Unlock()
	switch e.K {
	case "out", "closed", "cbEst", "cbFin", "deliver":
		atomic.AddInt32(&r.nOut, 1)
	}
}

func logBySid(sid string, e tr.Event) {
	if v, ok := runsBySid.Load(sid); ok {
		v.(*srvRun).log(e)
		return
	}
	s := atomic.AddInt64(&seqCounter, 1)
	orphanMu.Lock()
	// the case may have claimed the id meanwhile
	if v, ok := runsBySid.Load(sid); ok {
		orphanMu.Unlock()
		v.(*srvRun).log(e)
		return
	}
	orphans[sid] = append(orphans[sid], seqEvent{s, e})
	orphanMu.Unlock()
}

func (r *srvRun) claimSid(sid string) {
	r.mu.Lock()
	if r.sid != "" {
		r.mu.Unlock()
		return
	}
	r.sid = sid
	r.mu.Unlock()
	orphanMu.Lock()
	runsBySid.Store(sid, r)
	pend := orphans[sid]
	delete(orphans, sid)
	orphanMu.Unlock()
	if len(pend) > 0 {
		r.mu.Lock()
		r.evs = append(r.evs, pend...)
		r.mu.Unlock()
		for _, p := range pend {
			switch p.ev.K {
			case "cbEst", "cbFin", "deliver":
				atomic.AddInt32(&r.nOut, 1)
			}
		}
	}
}

func freePort() int {
	l, err := net.Listen("tcp", "127.0.0.1:0")
	if err != nil {
		panic(err)
	}
	p := l.Addr().(*net.TCPAddr).Port
	l.Close()
	return p
}

func roleRes(res *lime.AuthenticationResult, err error) string {
	if err != nil {
		return "error"
	}
	if res == nil {
		return "nilres"
	}
	switch res.Role {
	case lime.DomainRoleMember:
		return "member"
	case lime.DomainRoleAuthority:
		return "authority"
	case lime.DomainRoleRootAuthority:
		return "rootAuthority"
	}
	if res.RoundTrip != nil {
		return "roundtrip"
	}
	if res.Role == "" {
		return "empty"
	}
	return "unknown"
}

func getServer(cfg Cfg) (*liveServer, error) {
	key := cfg
	key.Flavour = "server"
	key.Rst = ""
	srvMu.Lock()
	defer srvMu.Unlock()
	if ls, ok := servers[key]; ok {
		return ls, nil
	}
	var lastErr error
	for attempt := 0; attempt < 5; attempt++ {
		addr := &net.TCPAddr{IP: net.IPv4(127, 0, 0, 1), Port: freePort()}
		tcfg := &lime.TCPConfig{}
		if cfg.Tk == "tcp_tls" {
			tcfg.TLSConfig = ServerTLS
		}
		b := lime.NewServerBuilder().Name(ServerNode.Name).Domain(ServerNode.Domain).Instance(ServerNode.Instance)
		b.ListenTCP(addr, tcfg)
		b.CompressionOptions(compList(cfg.Comp)...)
		b.EncryptionOptions(encList(cfg.Enc)...)
		// a second listener of another kind, added after the options were set: what it supports must not leak
		// into what the TCP sessions are offered (the builder's options are shared by all listeners)
		b.ListenInProcess(lime.InProcessAddr(fmt.Sprintf("hs-server-%d", addr.Port)))
		b.ChannelBufferSize(16)
		b.EnableGuestAuthentication()
		// the authenticators answer what the case's queue says; each first checks that it was handed the
		// credentials in the form the peer presented them (C03: "the credentials that this peer presented")
		decide := func(id lime.Identity, asPresented bool) (*lime.AuthenticationResult, error) {
			n, _ := CaseOfName(id.Name)
			out := "member"
			if v, ok := runsByN.Load(n); ok {
				r := v.(*srvRun)
				r.mu.Lock()
				if len(r.authQ) > 0 {
					out = r.authQ[0]
					r.authQ = r.authQ[1:]
				}
				r.mu.Unlock()
				if !asPresented {
					r.log(tr.Event{K: "authargs", Res: "crossed"})
				}
			}
			switch out {
			case "member":
				return lime.MemberAuthenticationResult(), nil
			case "unknown":
				return lime.UnknownAuthenticationResult(), nil
			case "roundtrip":
				rtA := &lime.PlainAuthentication{}
				rtA.SetPasswordAsBase64("challenge")
				return &lime.AuthenticationResult{Role: lime.DomainRoleUnknown, RoundTrip: rtA}, nil
			}
			return nil, CallbackErr(n, "authenticator failed")
		}
		b.EnablePlainAuthentication(func(ctx context.Context, id lime.Identity, pwd string) (*lime.AuthenticationResult, error) {
			return decide(id, strings.HasPrefix(pwd, "pw-"))
		})
		b.EnableKeyAuthentication(func(ctx context.Context, id lime.Identity, key string) (*lime.AuthenticationResult, error) {
			return decide(id, strings.HasPrefix(key, "ky-"))
		})
		b.EnableExternalAuthentication(func(ctx context.Context, id lime.Identity, token string, issuer string) (*lime.AuthenticationResult, error) {
			return decide(id, strings.HasPrefix(token, "tok-") && strings.HasPrefix(issuer, "iss-"))
		})
		b.MessagesHandlerFunc(func(ctx context.Context, m *lime.Message, s lime.Sender) error {
			sid, _ := lime.ContextSessionID(ctx)
			logBySid(sid, tr.Event{K: "deliver", Kind: "msg"})
			return nil
		})
		b.NotificationsHandlerFunc(func(ctx context.Context, m *lime.Notification) error {
			sid, _ := lime.ContextSessionID(ctx)
			logBySid(sid, tr.Event{K: "deliver", Kind: "not"})
			return nil
		})
		b.RequestCommandsHandlerFunc(func(ctx context.Context, m *lime.RequestCommand, s lime.Sender) error {
			sid, _ := lime.ContextSessionID(ctx)
			logBySid(sid, tr.Event{K: "deliver", Kind: "req"})
			return nil
		})
		b.ResponseCommandsHandlerFunc(func(ctx context.Context, m *lime.ResponseCommand, s lime.Sender) error {
			sid, _ := lime.ContextSessionID(ctx)
			logBySid(sid, tr.Event{K: "deliver", Kind: "resp"})
			return nil
		})
		b.Register(func(ctx context.Context, n lime.Node, c *lime.ServerChannel) (lime.Node, error) {
			cn, cls := CaseOfName(n.Name)
			out := "ok"
			if v, ok := runsByN.Load(cn); ok {
				r := v.(*srvRun)
				r.mu.Lock()
				if len(r.regQ) > 0 {
					out = r.regQ[0]
					r.regQ = r.regQ[1:]
				}
				r.mu.Unlock()
				r.log(tr.Event{K: "reg", Ident: cls, Res: out})
			}
			if out == "ok" {
				return RegFor(cn), nil
			}
			return lime.Node{}, CallbackErr(cn, "register callback failed")
		})
		b.Established(func(sid string, c *lime.ServerChannel) {
			logBySid(sid, tr.Event{K: "cbEst", Tenc: string(lime.VerifTransport(c).Encryption())})
		})
		b.Finished(func(sid string) {
			logBySid(sid, tr.Event{K: "cbFin"})
		})
		srv := b.Build()
		sc := lime.VerifServerConfig(srv)
		sc.SchemeOpts = schemeList(cfg.Schemes)
		inner := sc.Authenticate
		sc.Authenticate = func(ctx context.Context, id lime.Identity, a lime.Authentication) (*lime.AuthenticationResult, error) {
			res, err := inner(ctx, id, a)
			n, cls := CaseOfName(id.Name)
			if v, ok := runsByN.Load(n); ok {
				r := v.(*srvRun)
				scheme, cred := credClassOf(a)
				tenc := "none"
				r.mu.Lock()
				if r.wire == "tls" {
					tenc = "tls"
				}
				r.mu.Unlock()
				r.log(tr.Event{K: "auth", Scheme: scheme, Ident: cls, Cred: cred, Res: roleRes(res, err), Tenc: tenc})
			}
			return res, err
		}
		// another server of the same process, built afterwards with a different (wide open) authentication
		// set-up and never started: what its builder enables must not reach the server under test (C03: the
		// schemes and the authentication callback are those configured for THIS server)
		twin := lime.NewServerBuilder().Name("twin").Domain(ServerNode.Domain).Instance("twin")
		twin.ListenInProcess(lime.InProcessAddr(fmt.Sprintf("hs-twin-%d", addr.Port)))
		twin.EnableGuestAuthentication().EnableTransportAuthentication()
		twin.EnablePlainAuthentication(func(context.Context, lime.Identity, string) (*lime.AuthenticationResult, error) {
			return lime.MemberAuthenticationResult(), nil
		})
		twin.EnableKeyAuthentication(func(context.Context, lime.Identity, string) (*lime.AuthenticationResult, error) {
			return lime.MemberAuthenticationResult(), nil
		})
		twin.EnableExternalAuthentication(func(context.Context, lime.Identity, string, string) (*lime.AuthenticationResult, error) {
			return lime.MemberAuthenticationResult(), nil
		})
		_ = twin.Build()
		ls := &liveServer{srv: srv, addr: addr, done: make(chan error, 1)}
		go func() { ls.done <- srv.ListenAndServe() }()
		// wait until the listener accepts
		ok := false
		for i := 0; i < 200; i++ {
			select {
			case lastErr = <-ls.done:
				i = 1000
				continue
			default:
			}
			c, err := net.DialTimeout("tcp", addr.String(), 200*time.Millisecond)
			if err == nil {
				c.Close()
				ok = true
				break
			}
			time.Sleep(5 * time.Millisecond)
		}
		if ok {
			servers[key] = ls
			return ls, nil
		}
	}
	return nil, fmt.Errorf("could not start server: %v", lastErr)
}

// server-side transports by the address of their peer (hook sess.start), to look at them after the
// client has gone
var srvTransports sync.Map

func init() {
	prev := lime.VerifHook
	lime.VerifHook = func(point string, args ...interface{}) {
		if point == "sess.start" && len(args) == 2 {
			if t, ok := args[1].(lime.Transport); ok && t.RemoteAddr() != nil {
				srvTransports.Store(t.RemoteAddr().String(), t)
			}
		}
		if prev != nil {
			prev(point, args...)
		}
	}
}

// ---- raw client over a real socket -----------------------------------------

type sockReader struct {
	stopped chan struct{}
	done    int32
}

func (r *srvRun) startReader(conn net.Conn, wire string) *sockReader {
	rd := &sockReader{stopped: make(chan struct{})}
	go func() {
		defer close(rd.stopped)
		defer atomic.StoreInt32(&rd.done, 1)
		dec := json.NewDecoder(conn)
		for {
			var raw json.RawMessage
			err := dec.Decode(&raw)
			if err == nil {
				var m map[string]interface{}
				if json.Unmarshal(raw, &m) == nil {
					if id, _ := m["id"].(string); id != "" {
						if _, isSes := m["state"]; isSes {
							r.claimSid(id)
						}
					}
				}
				r.mu.Lock()
				sid := r.sid
				r.mu.Unlock()
				r.log(Abstract(raw, sid, wire, RegNode.String()))
				continue
			}
			var ne net.Error
			if errors.As(err, &ne) && ne.Timeout() {
				return // stopped by the driver
			}
			var se *json.SyntaxError
			if errors.As(err, &se) {
				r.log(tr.Event{K: "out", Kind: "bin", Wire: wire})
				buf := make([]byte, 4096)
				for {
					if _, e2 := conn.Read(buf); e2 != nil {
						if errors.As(e2, &ne) && ne.Timeout() {
							return
						}
						break
					}
				}
			}
			if tc, ok := conn.(*tls.Conn); ok {
				// the TLS conversation is over; is the TCP connection under it, too? (a close_notify alone
				// leaves the socket open on the server)
				raw := tc.NetConn()
				raw.SetReadDeadline(time.Now().Add(500 * time.Millisecond))
				buf := make([]byte, 512)
				for {
					_, e3 := raw.Read(buf)
					if e3 == nil {
						continue
					}
					if errors.As(e3, &ne) && ne.Timeout() {
						raw.SetReadDeadline(time.Time{})
						r.log(tr.Event{K: "halfclosed"})
						return
					}
					break
				}
			}
			r.log(tr.Event{K: "closed"})
			return
		}
	}()
	return rd
}

func (r *srvRun) waitOuts(target int32, d time.Duration) bool {
	dl := time.Now().Add(d)
	for atomic.LoadInt32(&r.nOut) < target {
		if time.Now().After(dl) {
			return false
		}
		time.Sleep(200 * time.Microsecond)
	}
	return true
}

// ReplayServer replays one generated behaviour against a real Server built
// with ServerBuilder and serving on a loopback TCP listener.
func ReplayServer(c Case) *Result {
	res := &Result{N: c.N, Cfg: c.Cfg}
	r := &srvRun{c: c, names: CaseNames(c.N), wire: "clear", res: res}
	for _, e := range c.Obs {
		if e.K == "auth" && (e.Scheme == "plain" || e.Scheme == "key" || e.Scheme == "external") && e.Cred != "" {
			r.authQ = append(r.authQ, e.Res)
		}
		if e.K == "reg" {
			r.regQ = append(r.regQ, e.Res)
		}
	}
	runsByN.Store(c.N, r)
	srvMu.Lock()
	allRuns = append(allRuns, r)
	srvMu.Unlock()
	ls, err := getServer(c.Cfg)
	if err != nil {
		res.Note = "server-start-failed: " + err.Error()
		return res
	}
	raw, err := net.DialTimeout("tcp", ls.addr.String(), 2*time.Second)
	if err != nil {
		res.Note = "dial-failed: " + err.Error()
		return res
	}
	var conn net.Conn = raw
	rd := r.startReader(conn, "clear")
	stopReader := func() {
		if atomic.LoadInt32(&rd.done) == 0 {
			raw.SetReadDeadline(time.Now())
			<-rd.stopped
			raw.SetReadDeadline(time.Time{})
		}
	}
	lastIn := -1
	for i, e := range c.Obs {
		if e.K == "in" {
			lastIn = i
		}
	}
	// expected number of asynchronous events after each script step
	var target int32
	closedSelf := false
	for i := 0; i < len(c.Obs); i++ {
		e := c.Obs[i]
		if e.K != "in" {
			continue
		}
		exp := int32(0)
		for j := i + 1; j < len(c.Obs) && c.Obs[j].K != "in" && c.Obs[j].K != "end"; j++ {
			switch c.Obs[j].K {
			case "out", "closed", "cbEst", "cbFin", "deliver":
				exp++
			}
		}
		target += exp
		switch e.Kind {
		case "eof":
			stopReader()
			ev := e
			ev.Wire = r.wire
			r.log(ev)
			conn.Close()
			closedSelf = true
		case "tlsup":
			stopReader()
			tc := tls.Client(raw, ClientTLS)
			tc.SetDeadline(time.Now().Add(5 * time.Second))
			herr := tc.Handshake()
			tc.SetDeadline(time.Time{})
			ev := e
			if herr == nil {
				conn = tc
				r.mu.Lock()
				r.wire = "tls"
				r.mu.Unlock()
				ev.Wire = "tls"
			} else {
				ev.Wire = "clear"
				ev.Res = "hsfail"
			}
			r.log(ev)
			rd = r.startReader(conn, r.wire)
		default:
			ev := e
			ev.Wire = r.wire
			r.log(ev)
			r.mu.Lock()
			sid := r.sid
			r.mu.Unlock()
			conn.SetWriteDeadline(time.Now().Add(2 * time.Second))
			if _, werr := conn.Write(Concretise(e, sid, r.names)); werr != nil {
				r.note += "client-write-failed;"
			}
			if c.Cfg.Rst == "y" && i == lastIn {
				// the client does not wait for the answer: it resets the connection, so whatever the server
				// still wants to say cannot be written. Is the server side released all the same?
				local := raw.LocalAddr().String()
				stopReader()
				if tc, ok := raw.(*net.TCPConn); ok {
					tc.SetLinger(0)
				}
				raw.Close()
				closedSelf = true
				resv := "leaked"
				dl := time.Now().Add(2500 * time.Millisecond)
				for time.Now().Before(dl) {
					if v, ok := srvTransports.Load(local); ok {
						if !v.(lime.Transport).Connected() {
							resv = "released"
							break
						}
					}
					time.Sleep(2 * time.Millisecond)
				}
				if _, ok := srvTransports.Load(local); !ok {
					resv = "unseen" // the server never got as far as serving it
				}
				srvTransports.Delete(local)
				r.rst = &tr.Event{K: "srvconn", Res: resv}
				r.log(tr.Event{K: "end", Res: "quiet"})
				return res
			}
		}
		if !r.waitOuts(target, 2*time.Second) {
			r.note += fmt.Sprintf("step%d-short;", i)
		}
	}
	// end of script: is the connection released?  (bounded wait for EOF)
	if !closedSelf {
		dl := time.Now().Add(1500 * time.Millisecond)
		for atomic.LoadInt32(&rd.done) == 0 && time.Now().Before(dl) {
			time.Sleep(500 * time.Microsecond)
		}
		stopReader()
		conn.Close()
	}
	r.log(tr.Event{K: "end", Res: "quiet"})
	return res
}

// ---- finalisation ------------------------------------------------------------

func census() int {
	buf := make([]byte, 1<<24)
	n := runtime.Stack(buf, true)
	cnt := 0
	for _, blk := range bytes.Split(buf[:n], []byte("\n\n")) {
		if bytes.Contains(blk, []byte("lime-go.(*Server).handleChannel")) ||
			bytes.Contains(blk, []byte("lime-go.receiveFromTransport")) {
			cnt++
		}
	}
	return cnt
}

func (r *srvRun) finalize() {
	r.mu.Lock()
	evs := append([]seqEvent(nil), r.evs...)
	r.mu.Unlock()
	sort.SliceStable(evs, func(i, j int) bool { return evs[i].seq < evs[j].seq })
	out := make([]tr.Event, 0, len(evs))
	for _, e := range evs {
		out = append(out, e.ev)
	}
	// callbacks race with what the client reads: list them where a step-wise
	// observer does, after the envelopes / closure of the same step
	isStepStart := func(e tr.Event) bool { return e.K == "in" || e.K == "end" }
	norm := make([]tr.Event, 0, len(out))
	var cbs []tr.Event
	for _, e := range out {
		if isStepStart(e) {
			norm = append(norm, cbs...)
			cbs = cbs[:0]
		}
		if e.K == "cbEst" || e.K == "cbFin" {
			cbs = append(cbs, e)
			continue
		}
		norm = append(norm, e)
	}
	out = append(norm, cbs...)
	if r.rst != nil {
		// the client did not stay to observe: what counts is what became of the server side
		kept := []tr.Event{{K: "in", Kind: "eof", Wire: "clear"}, *r.rst}
		for _, e := range out {
			if e.K == "cbEst" || e.K == "cbFin" || e.K == "panic" {
				kept = append(kept, e)
			}
		}
		out = append(kept, tr.Event{K: "end", Res: "quiet"})
		r.res.Actual = out
		r.res.Note += r.note
		r.res.Match = true
		return
	}
	r.res.Actual = out
	r.res.Note += r.note
	r.res.Match = sameObs(r.c.Obs, out)
}

// LeakCensus is the number of serving goroutines left after every case ended.
var LeakCensus int

// Shutdown waits for stragglers, takes the goroutine census, closes the shared
// servers and finalises the server-flavour results.
func Shutdown() {
	srvMu.Lock()
	n := len(allRuns)
	srvMu.Unlock()
	if n == 0 {
		return
	}
	// sessions whose client vanished end at the next 5 s poll of their receiver
	dl := time.Now().Add(8 * time.Second)
	for {
		LeakCensus = census()
		if LeakCensus == 0 || time.Now().After(dl) {
			break
		}
		time.Sleep(100 * time.Millisecond)
	}
	srvMu.Lock()
	for _, ls := range servers {
		ls.srv.Close()
	}
	servers = map[Cfg]*liveServer{}
	runs := allRuns
	allRuns = nil
	srvMu.Unlock()
	time.Sleep(100 * time.Millisecond)
	for _, r := range runs {
		r.finalize()
	}
}
