// Package hs replays TLC-generated handshake behaviours (HsServer.tla,
// HsClient.tla) against the real lime-go channels and records what a
// peer / the application actually observes.
package hs

import (
	"context"
	"crypto/ecdsa"
	"crypto/elliptic"
	"crypto/rand"
	"crypto/tls"
	"crypto/x509"
	"crypto/x509/pkix"
	"encoding/base64"
	"encoding/json"
	"errors"
	"fmt"
	"math/big"
	"sort"
	"strings"
	"time"

	lime "github.com/takenet/lime-go"
	"verif/harness/tr"
)

// Cfg mirrors CfgOut of HsServerMC.tla.
type Cfg struct {
	Tk      string `json:"tk"`
	Enc     string `json:"enc"`
	Comp    string `json:"comp"`
	Schemes string `json:"schemes"`
	Flavour string `json:"flavour"`
	Esel    string `json:"esel,omitempty"`
	Rst     string `json:"rst,omitempty"` // server flavour: "y" = the client resets the connection right after its last symbol
}

// Case is one maximal behaviour printed by TLC.
type Case struct {
	N   int        `json:"n"`
	Cfg Cfg        `json:"cfg"`
	Obs []tr.Event `json:"obs"`
}

// Result of replaying one case on the real code.
type Result struct {
	N      int        `json:"n"`
	Cfg    Cfg        `json:"cfg"`
	Match  bool       `json:"match"`
	Actual []tr.Event `json:"actual"`
	Note   string     `json:"note,omitempty"`
}

const (
	NameA    = "5d3b2a9c-1f47-4a8e-9b6d-0c2e7f318a54" // a UUID: guest "member" for the Server flavour
	NameB    = "bob"
	Domain   = "example.com"
	WrongSID = "ffffffff-0000-4000-8000-00000000dead"
)

var ServerNode = lime.Node{Identity: lime.Identity{Name: "postmaster", Domain: Domain}, Instance: "srv1"}
var RegNode = lime.Node{Identity: lime.Identity{Name: "registered", Domain: Domain}, Instance: "assigned"}

// RegNodePartial: what the registration callback hands out in every other case - an address without an
// instance. The established session must announce exactly what the callback supplied, complete or not.
var RegNodePartial = lime.Node{Identity: lime.Identity{Name: "registered", Domain: Domain}}

// RegFor picks the registered node of case n.
func RegFor(n int) lime.Node {
	if n%2 == 1 {
		return RegNodePartial
	}
	return RegNode
}

// CallbackErr is what a failing callback of case n returns: a plain error, or (every other case) one that
// wraps a context error, as a callback does whose own backend timed out.
func CallbackErr(n int, what string) error {
	if n%2 == 1 {
		return fmt.Errorf("%s: backend: %w", what, context.DeadlineExceeded)
	}
	return errors.New(what)
}

func splitSet(s string) []string {
	if s == "" {
		return nil
	}
	return strings.Split(s, ",")
}

func joinSorted(order []string, present map[string]bool, extra []string) string {
	var out []string
	for _, o := range order {
		if present[o] {
			out = append(out, o)
		}
	}
	sort.Strings(extra)
	out = append(out, extra...)
	return strings.Join(out, ",")
}

func canon(order []string, vals []interface{}) string {
	present := map[string]bool{}
	var extra []string
	for _, v := range vals {
		s, _ := v.(string)
		known := false
		for _, o := range order {
			if o == s {
				known = true
			}
		}
		if known {
			present[s] = true
		} else {
			extra = append(extra, s)
		}
	}
	return joinSorted(order, present, extra)
}

var encOrder = []string{"none", "tls"}
var compOrder = []string{"none", "gzip"}
var schOrder = []string{"guest", "plain", "transport", "key", "external"}

// Names gives the concrete identity names standing for the classes a / b.
type Names struct{ A, B string }

var FixedNames = Names{A: NameA, B: NameB}

// CaseNames embeds the case number in the names, so callbacks of a shared
// Server can tell which case a call belongs to.
func CaseNames(n int) Names {
	return Names{A: fmt.Sprintf("%08x-1f47-4a8e-9b6d-0c2e7f318a54", n), B: fmt.Sprintf("bob-%d", n)}
}

// CaseOfName inverts CaseNames: case number and class, or (0, "?").
func CaseOfName(name string) (int, string) {
	var n int
	if strings.HasPrefix(name, "bob-") {
		if _, err := fmt.Sscanf(name, "bob-%d", &n); err == nil {
			return n, "b"
		}
	}
	if len(name) == 36 && strings.HasSuffix(name, "-1f47-4a8e-9b6d-0c2e7f318a54") {
		if _, err := fmt.Sscanf(name[:8], "%x", &n); err == nil {
			return n, "a"
		}
	}
	return 0, "?"
}

func (nm Names) name(c string) string {
	if c == "a" {
		return nm.A
	}
	return nm.B
}

func (nm Names) class(name string) string {
	switch name {
	case nm.A:
		return "a"
	case nm.B:
		return "b"
	case "":
		return ""
	}
	return "?"
}

func identClass(name string) string { return FixedNames.class(name) }

func credB64(c string) string { return base64.StdEncoding.EncodeToString([]byte("pw-" + c)) }

// keys look different from passwords, so that an authenticator can tell which of the two it was handed
func keyB64(c string) string { return base64.StdEncoding.EncodeToString([]byte("ky-" + c)) }

func credClassOf(a lime.Authentication) (scheme, cred string) {
	if a == nil {
		return "", ""
	}
	switch v := a.(type) {
	case *lime.PlainAuthentication:
		p, err := v.GetPasswordFromBase64()
		if err == nil && strings.HasPrefix(p, "pw-") {
			return "plain", p[3:]
		}
		return "plain", "?"
	case *lime.KeyAuthentication:
		p, err := v.GetKeyFromBase64()
		if err == nil && strings.HasPrefix(p, "ky-") {
			return "key", p[3:]
		}
		return "key", "?"
	case *lime.GuestAuthentication:
		return "guest", "e"
	case *lime.TransportAuthentication:
		return "transport", "e"
	case *lime.ExternalAuthentication:
		if strings.HasPrefix(v.Token, "tok-") && strings.HasPrefix(v.Issuer, "iss-") && v.Token[4:] == v.Issuer[4:] {
			return "external", v.Token[4:]
		}
		return "external", "?"
	}
	return "?", "?"
}

// Concretise renders an abstract `in` symbol as the bytes a raw client writes.
func Concretise(e tr.Event, sid string, nm Names) []byte {
	switch e.Kind {
	case "garbage":
		return []byte("}{ this is not json\n")
	case "junk":
		return []byte(`{"foo":1}` + "\n")
	case "msg":
		return []byte(`{"id":"m1","to":"x@example.com","type":"text/plain","content":"hello"}` + "\n")
	case "hybrid": // a message that also carries a state member
		return []byte(`{"to":"x@example.com","type":"text/plain","content":"hello","state":"new"}` + "\n")
	case "not":
		return []byte(`{"id":"m1","event":"received"}` + "\n")
	case "req":
		return []byte(`{"id":"c1","method":"get","uri":"/ping"}` + "\n")
	case "resp":
		return []byte(`{"id":"c1","method":"get","status":"success"}` + "\n")
	case "ses":
		m := map[string]interface{}{"state": e.St}
		switch e.ID {
		case "right":
			m["id"] = sid
		case "wrong":
			m["id"] = WrongSID
		}
		if e.Enc != "" {
			m["encryption"] = e.Enc
		}
		if e.Comp != "" {
			m["compression"] = e.Comp
		}
		if e.Scheme != "" {
			m["scheme"] = e.Scheme
		}
		if e.Ident != "" {
			m["from"] = nm.name(e.Ident) + "@" + Domain + "/home"
		}
		switch e.Cred {
		case "":
		case "e":
			m["authentication"] = map[string]interface{}{}
		default:
			if e.Scheme == "key" {
				m["authentication"] = map[string]interface{}{"key": keyB64(e.Cred)}
			} else if e.Scheme == "external" {
				m["authentication"] = map[string]interface{}{"token": "tok-" + e.Cred, "issuer": "iss-" + e.Cred}
			} else {
				m["authentication"] = map[string]interface{}{"password": credB64(e.Cred)}
			}
		}
		b, _ := json.Marshal(m)
		if e.Res == "pipe" { // credentials pipelined behind the choice, in the same write
			c, _ := json.Marshal(map[string]interface{}{"id": m["id"], "state": "authenticating", "scheme": "plain",
				"from": nm.name("a") + "@" + Domain + "/home", "authentication": map[string]interface{}{"password": credB64("p")}})
			return append(append(append(b, '\n'), c...), '\n')
		}
		return append(b, '\n')
	}
	panic("concretise: unknown symbol kind " + e.Kind)
}

func nodeClass(v interface{}, reg string) string {
	s, ok := v.(string)
	if !ok || s == "" {
		return ""
	}
	switch s {
	case ServerNode.String():
		return "srv"
	case reg, RegNodePartial.String():
		return "reg"
	}
	return "other"
}

// Abstract projects a JSON value read by the raw client to an `out` event.
func Abstract(raw []byte, sid string, wire string, reg string) tr.Event {
	ev := tr.Event{K: "out", Wire: wire}
	var m map[string]interface{}
	if err := json.Unmarshal(raw, &m); err != nil {
		ev.Kind = "bin"
		return ev
	}
	_, hasState := m["state"]
	_, hasContent := m["content"]
	_, hasEvent := m["event"]
	_, hasMethod := m["method"]
	_, hasURI := m["uri"]
	_, hasStatus := m["status"]
	switch {
	case hasMethod && hasURI:
		ev.Kind = "req"
	case hasMethod && hasStatus:
		ev.Kind = "resp"
	case hasEvent:
		ev.Kind = "not"
	case hasContent:
		ev.Kind = "msg"
	case hasState:
		ev.Kind = "ses"
	default:
		ev.Kind = "junk"
	}
	if ev.Kind != "ses" {
		return ev
	}
	ev.St, _ = m["state"].(string)
	id, _ := m["id"].(string)
	switch id {
	case "":
		ev.ID = "none"
	case sid:
		ev.ID = "right"
	default:
		ev.ID = "wrong"
	}
	ev.Frm = nodeClass(m["from"], reg)
	ev.To = nodeClass(m["to"], reg)
	ev.Enc, _ = m["encryption"].(string)
	ev.Comp, _ = m["compression"].(string)
	if v, ok := m["encryptionOptions"].([]interface{}); ok {
		ev.Eopts = canon(encOrder, v)
	}
	if v, ok := m["compressionOptions"].([]interface{}); ok {
		ev.Copts = canon(compOrder, v)
	}
	if v, ok := m["schemeOptions"].([]interface{}); ok {
		ev.Sopts = canon(schOrder, v)
	}
	ev.Scheme, _ = m["scheme"].(string)
	if _, ok := m["authentication"]; ok {
		ev.Cred = "rt"
	}
	if r, ok := m["reason"].(map[string]interface{}); ok {
		if d, _ := r["description"].(string); d != "" {
			ev.Reason = "y"
		} else {
			ev.Reason = "empty"
		}
	}
	return ev
}

// TLS material generated in-process.
var (
	ServerTLS *tls.Config
	ClientTLS *tls.Config
)

func init() {
	key, err := ecdsa.GenerateKey(elliptic.P256(), rand.Reader)
	if err != nil {
		panic(err)
	}
	tmpl := x509.Certificate{
		SerialNumber: big.NewInt(1),
		Subject:      pkix.Name{CommonName: "localhost"},
		NotBefore:    time.Now().Add(-time.Hour),
		NotAfter:     time.Now().Add(24 * time.Hour),
		KeyUsage:     x509.KeyUsageDigitalSignature,
		ExtKeyUsage:  []x509.ExtKeyUsage{x509.ExtKeyUsageServerAuth},
		DNSNames:     []string{"localhost"},
	}
	der, err := x509.CreateCertificate(rand.Reader, &tmpl, &tmpl, &key.PublicKey, key)
	if err != nil {
		panic(err)
	}
	cert := tls.Certificate{Certificate: [][]byte{der}, PrivateKey: key}
	ServerTLS = &tls.Config{Certificates: []tls.Certificate{cert}}
	ClientTLS = &tls.Config{InsecureSkipVerify: true, ServerName: "localhost"}
}

func encList(s string) []lime.SessionEncryption {
	out := []lime.SessionEncryption{}
	for _, x := range splitSet(s) {
		out = append(out, lime.SessionEncryption(x))
	}
	return out
}
func compList(s string) []lime.SessionCompression {
	out := []lime.SessionCompression{}
	for _, x := range splitSet(s) {
		out = append(out, lime.SessionCompression(x))
	}
	return out
}
func schemeList(s string) []lime.AuthenticationScheme {
	out := []lime.AuthenticationScheme{}
	for _, x := range splitSet(s) {
		out = append(out, lime.AuthenticationScheme(x))
	}
	return out
}

func errf(format string, a ...interface{}) error { return fmt.Errorf(format, a...) }
