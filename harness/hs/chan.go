package hs

import (
	"context"
	"crypto/tls"
	"encoding/json"
	"errors"
	"fmt"
	"io"
	"net"
	"sync"
	"sync/atomic"
	"time"

	lime "github.com/takenet/lime-go"
	"verif/harness/pipe"
	"verif/harness/tr"
)

// rawReader reads JSON values from the client side of the connection and
// logs them as `out` events; EOF is logged as `closed`.
type rawReader struct {
	conn    net.Conn
	wire    string
	done    int32
	stopped chan struct{}
}

type chanRun struct {
	c      Case
	sid    string
	srvEnd *pipe.End
	cliEnd *pipe.End
	sc     *lime.ServerChannel
	t      lime.Transport

	mu     sync.Mutex
	actual []tr.Event
	authQ  []string
	regQ   []string

	retCh     chan struct{}
	retErr    error
	panicVal  interface{}
	returned  int32
	retLogged bool

	cliConn net.Conn
	wire    string
	rd      *rawReader
	note    string
}

func (r *chanRun) log(e tr.Event) {
	r.mu.Lock()
	r.actual = append(r.actual, e)
	r.mu.Unlock()
}

func (r *chanRun) reserve() int {
	r.mu.Lock()
	defer r.mu.Unlock()
	r.actual = append(r.actual, tr.Event{K: "reserved"})
	return len(r.actual) - 1
}

func (r *chanRun) set(i int, e tr.Event) {
	r.mu.Lock()
	r.actual[i] = e
	r.mu.Unlock()
}

func (r *chanRun) startReader() {
	rd := &rawReader{conn: r.cliConn, wire: r.wire, stopped: make(chan struct{})}
	r.rd = rd
	go func() {
		defer close(rd.stopped)
		defer atomic.StoreInt32(&rd.done, 1)
		dec := json.NewDecoder(rd.conn)
		for {
			var raw json.RawMessage
			err := dec.Decode(&raw)
			if err == nil {
				r.log(Abstract(raw, r.sid, rd.wire, RegNode.String()))
				continue
			}
			if errors.Is(err, pipe.ErrKicked) || errors.Is(err, net.ErrClosed) {
				return
			}
			var se *json.SyntaxError
			if errors.As(err, &se) {
				// not JSON: log once, then swallow the rest of the stream
				r.log(tr.Event{K: "out", Kind: "bin", Wire: rd.wire})
				buf := make([]byte, 4096)
				for {
					if _, e2 := rd.conn.Read(buf); e2 != nil {
						if errors.Is(e2, pipe.ErrKicked) || errors.Is(e2, net.ErrClosed) {
							return
						}
						break
					}
				}
			}
			r.log(tr.Event{K: "closed"})
			return
		}
	}()
}

func (r *chanRun) stopReader() {
	if r.rd == nil {
		return
	}
	if atomic.LoadInt32(&r.rd.done) == 0 {
		r.cliEnd.Kick()
		<-r.rd.stopped
		r.cliEnd.Unkick()
	}
}

func (r *chanRun) receiverRunning() bool {
	if r.sc.State() != lime.SessionStateEstablished {
		return false
	}
	select {
	case <-r.sc.RcvDone():
		return false
	default:
		return true
	}
}

// quiesce waits until the server side is blocked reading (or gone) and the
// raw client has consumed everything the server wrote.
func (r *chanRun) quiesce() bool {
	deadline := time.Now().Add(10 * time.Second)
	for {
		ch := r.srvEnd.Changed()
		ss := r.srvEnd.Status()
		cs := r.cliEnd.Status()
		ret := atomic.LoadInt32(&r.returned) == 1
		inactive := ret && !r.receiverRunning()
		blocked := ss.Buffered == 0 && ss.Waiting && !ss.PeerClosed
		// before EstablishSession returned only the handshake goroutine may be
		// the blocked reader: an established state with the call still running
		// means the established envelope is about to be written
		srvQuiet := inactive || (ret && blocked) ||
			(!ret && blocked && r.sc.State() != lime.SessionStateEstablished)
		cliQuiet := atomic.LoadInt32(&r.rd.done) == 1 || (cs.Buffered == 0 && cs.Waiting && !cs.PeerClosed)
		if srvQuiet && cliQuiet {
			// re-check once: the server may have been about to write
			ss2 := r.srvEnd.Status()
			cs2 := r.cliEnd.Status()
			if ss2 == ss && cs2 == cs {
				return true
			}
			continue
		}
		if time.Now().After(deadline) {
			return false
		}
		t := time.NewTimer(2 * time.Millisecond)
		select {
		case <-ch:
		case <-t.C:
		}
		t.Stop()
	}
}

func (r *chanRun) nextOutcome(q *[]string, dflt string) string {
	r.mu.Lock()
	defer r.mu.Unlock()
	if len(*q) == 0 {
		return dflt
	}
	o := (*q)[0]
	*q = (*q)[1:]
	return o
}

func (r *chanRun) authenticate(ctx context.Context, id lime.Identity, a lime.Authentication) (*lime.AuthenticationResult, error) {
	scheme, cred := credClassOf(a)
	out := r.nextOutcome(&r.authQ, "member")
	r.log(tr.Event{K: "auth", Scheme: scheme, Ident: identClass(id.Name), Cred: cred, Res: out,
		Tenc: string(r.t.Encryption())})
	switch out {
	case "member":
		return lime.MemberAuthenticationResult(), nil
	case "authority":
		return lime.AuthorityAuthenticationResult(), nil
	case "unknown":
		return lime.UnknownAuthenticationResult(), nil
	case "empty":
		return &lime.AuthenticationResult{}, nil
	case "roundtrip":
		rtA := &lime.PlainAuthentication{}
		rtA.SetPasswordAsBase64("challenge")
		return &lime.AuthenticationResult{Role: lime.DomainRoleUnknown, RoundTrip: rtA}, nil
	}
	return nil, CallbackErr(r.c.N, "authenticate callback failed")
}

func (r *chanRun) register(ctx context.Context, n lime.Node, c *lime.ServerChannel) (lime.Node, error) {
	out := r.nextOutcome(&r.regQ, "ok")
	r.log(tr.Event{K: "reg", Ident: identClass(n.Name), Res: out})
	if out == "ok" {
		return RegFor(r.c.N), nil
	}
	return lime.Node{}, CallbackErr(r.c.N, "register callback failed")
}

func probeMsg() *lime.Message {
	m := &lime.Message{}
	m.SetContent(lime.TextDocument("probe"))
	m.ID = "p-msg"
	return m
}
func probeNot() *lime.Notification {
	n := &lime.Notification{Event: lime.NotificationEventReceived}
	n.ID = "p-not"
	return n
}
func probeReq() *lime.RequestCommand {
	c := &lime.RequestCommand{}
	c.ID = "p-req"
	c.Method = lime.CommandMethodGet
	c.SetURIString("/ping")
	return c
}
func probeResp() *lime.ResponseCommand {
	c := &lime.ResponseCommand{}
	c.ID = "p-resp"
	c.Method = lime.CommandMethodGet
	c.Status = lime.CommandStatusSuccess
	return c
}

// probe calls every send operation of the channel once and logs one event.
func probe(ch interface {
	lime.Sender
	lime.CommandProcessor
}, st lime.SessionState, reserve func() int, set func(int, tr.Event)) {
	slot := reserve()
	ctx, cancel := context.WithTimeout(context.Background(), 2*time.Second)
	defer cancel()
	type op struct {
		name string
		f    func() error
	}
	ops := []op{
		{"msg", func() error { return ch.SendMessage(ctx, probeMsg()) }},
		{"not", func() error { return ch.SendNotification(ctx, probeNot()) }},
		{"req", func() error { return ch.SendRequestCommand(ctx, probeReq()) }},
		{"resp", func() error { return ch.SendResponseCommand(ctx, probeResp()) }},
	}
	if st != lime.SessionStateEstablished {
		ops = append(ops, op{"pcmd", func() error { _, e := ch.ProcessCommand(ctx, probeReq()); return e }})
	}
	nOK, detail := 0, ""
	for _, o := range ops {
		var err error
		func() {
			defer func() {
				if p := recover(); p != nil {
					err = fmt.Errorf("panic: %v", p)
				}
			}()
			err = o.f()
		}()
		if err == nil {
			nOK++
			detail += o.name + ":ok;"
		} else {
			detail += o.name + ":err;"
		}
	}
	res := detail
	if nOK == 0 {
		res = "err"
	} else if nOK == len(ops) {
		res = "ok"
	}
	set(slot, tr.Event{K: "probe", St: string(st), Res: res})
}

func (r *chanRun) afterStep() {
	if !r.quiesce() {
		r.note += "quiesce-timeout;"
	}
	if !r.retLogged && atomic.LoadInt32(&r.returned) == 1 {
		r.retLogged = true
		if r.panicVal != nil {
			r.log(tr.Event{K: "panic", Res: fmt.Sprint(r.panicVal)})
		} else {
			res := "nil"
			if r.retErr != nil {
				res = "err"
			}
			r.log(tr.Event{K: "ret", Res: res, St: string(r.sc.State()), Tenc: string(r.t.Encryption())})
		}
	}
	r.drainStreams()
	st := r.sc.State()
	r.log(tr.Event{K: "state", St: string(st)})
	probe(r.sc, st, r.reserve, r.set)
	if !r.quiesce() {
		r.note += "quiesce-timeout;"
	}
}

func (r *chanRun) drainStreams() {
	for {
		select {
		case m, ok := <-r.sc.MsgChan():
			if ok && m != nil {
				r.log(tr.Event{K: "deliver", Kind: "msg"})
				continue
			}
		default:
		}
		select {
		case m, ok := <-r.sc.NotChan():
			if ok && m != nil {
				r.log(tr.Event{K: "deliver", Kind: "not"})
				continue
			}
		default:
		}
		select {
		case m, ok := <-r.sc.ReqCmdChan():
			if ok && m != nil {
				r.log(tr.Event{K: "deliver", Kind: "req"})
				continue
			}
		default:
		}
		select {
		case m, ok := <-r.sc.RespCmdChan():
			if ok && m != nil {
				r.log(tr.Event{K: "deliver", Kind: "resp"})
				continue
			}
		default:
		}
		return
	}
}

// pokeUntil keeps the server's polling reads ticking until done is closed.
func (r *chanRun) pokeUntil(done <-chan struct{}) {
	for {
		select {
		case <-done:
			return
		case <-time.After(500 * time.Microsecond):
			r.srvEnd.Poke()
		}
	}
}

// ReplayChan replays one generated behaviour against a real ServerChannel
// running over the real TCP transport on an in-memory connection.
func ReplayChan(c Case) Result {
	r := &chanRun{c: c, sid: fmt.Sprintf("5e551041-0000-4000-8000-%012x", c.N), wire: "clear"}
	r.srvEnd, r.cliEnd = pipe.New(0, false)
	r.cliConn = r.cliEnd
	for _, e := range c.Obs {
		switch e.K {
		case "auth":
			r.authQ = append(r.authQ, e.Res)
		case "reg":
			r.regQ = append(r.regQ, e.Res)
		}
	}
	tcfg := &lime.TCPConfig{}
	if c.Cfg.Tk == "tcp_tls" {
		tcfg.TLSConfig = ServerTLS
	}
	r.t = lime.VerifNewTCPTransport(r.srvEnd, tcfg, true)
	r.sc = lime.NewServerChannel(r.t, 16, ServerNode, r.sid)
	r.retCh = make(chan struct{})
	ctx, cancel := context.WithTimeout(context.Background(), 60*time.Second)
	defer cancel()
	go func() {
		defer close(r.retCh)
		defer atomic.StoreInt32(&r.returned, 1)
		defer func() {
			if p := recover(); p != nil {
				r.panicVal = p
			}
		}()
		r.retErr = r.sc.EstablishSession(ctx, compList(c.Cfg.Comp), encList(c.Cfg.Enc), schemeList(c.Cfg.Schemes),
			r.authenticate, r.register)
	}()
	r.startReader()
	r.afterStep()

	for _, e := range c.Obs {
		switch {
		case e.K == "in" && e.Kind == "eof":
			r.stopReader()
			ev := e
			ev.Wire = r.wire
			r.log(ev)
			r.cliEnd.Close()
			atomic.StoreInt32(&r.rd.done, 1)
			r.afterStep()
		case e.K == "in" && e.Kind == "tlsup":
			r.stopReader()
			ev := e
			tc := tls.Client(r.cliEnd, ClientTLS)
			tc.SetDeadline(time.Now().Add(5 * time.Second))
			err := tc.Handshake()
			tc.SetDeadline(time.Time{})
			if err == nil {
				r.wire = "tls"
				r.cliConn = tc
				ev.Wire = "tls"
			} else {
				ev.Wire = "clear"
				ev.Res = "hsfail"
			}
			r.log(ev)
			r.startReader()
			r.afterStep()
		case e.K == "in":
			ev := e
			ev.Wire = r.wire
			r.log(ev)
			r.cliConn.SetWriteDeadline(time.Now().Add(2 * time.Second))
			if _, err := r.cliConn.Write(Concretise(e, r.sid, FixedNames)); err != nil {
				r.note += "client-write-failed;"
			}
			r.afterStep()
		case e.K == "app":
			r.log(tr.Event{K: "app", Op: e.Op})
			done := make(chan struct{})
			go func() {
				defer close(done)
				cctx, ccancel := context.WithTimeout(context.Background(), 20*time.Second)
				defer ccancel()
				if e.Op == "finish" {
					_ = r.sc.FinishSession(cctx)
				} else {
					_ = r.sc.FailSession(cctx, &lime.Reason{Code: 42, Description: "application failure"})
				}
			}()
			r.pokeUntil(done)
			r.afterStep()
		case e.K == "end":
			r.log(tr.Event{K: "end", Res: "quiet"})
		}
	}

	// cleanup: closing the client side lets a live receiver see EOF and exit
	r.stopReader()
	r.cliEnd.Close()
	select {
	case <-r.retCh:
	case <-time.After(10 * time.Second):
		r.note += "establish-never-returned;"
	}
	_ = r.srvEnd.Close()

	res := Result{N: c.N, Cfg: c.Cfg, Actual: r.actual, Note: r.note}
	res.Match = sameObs(c.Obs, r.actual)
	return res
}

func sameObs(a, b []tr.Event) bool {
	if len(a) != len(b) {
		return false
	}
	for i := range a {
		if a[i] != b[i] {
			return false
		}
	}
	return true
}

var _ = io.EOF
