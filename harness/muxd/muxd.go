// Package muxd replays the cases of Mux.tla: each handler table is registered
// on a real EnvelopeMux, the inbound sequence arrives over a real TCP session
// (unbuffered channel streams, so dispatch order is arrival order), handlers
// log which of them ran. Server role: a real Server; client role: ListenClient.
package muxd

import (
	"context"
	"errors"
	"fmt"
	"net"
	"strconv"
	"strings"
	"sync"
	"sync/atomic"
	"time"

	lime "github.com/takenet/lime-go"
)

// Event mirrors M0 of MuxProps.tla.
type Event struct {
	K    string `json:"k"`
	Seq  int    `json:"seq"`
	Kind string `json:"kind"`
	Cls  string `json:"cls"`
	Idx  int    `json:"idx"`
	Res  string `json:"res"`
}

type H struct {
	Pred string `json:"pred"`
	Out  string `json:"out"`
}
type Cfg struct {
	Role  string `json:"role"`
	Focus string `json:"focus"`
	Hs    []H    `json:"hs"`
}
type In struct {
	Own bool   `json:"own"`
	Cls string `json:"cls"`
}
type Case struct {
	N     int     `json:"n"`
	Cfg   Cfg     `json:"cfg"`
	Inbox []In    `json:"inbox"`
	Obs   []Event `json:"obs"`
}
type Result struct {
	N      int     `json:"n"`
	Cfg    Cfg     `json:"cfg"`
	Match  bool    `json:"match"`
	Actual []Event `json:"actual"`
	Note   string  `json:"note,omitempty"`
}

var kinds = []string{"msg", "not", "req", "resp"}

func other(k string) string {
	for i, x := range kinds {
		if x == k {
			return kinds[(i+1)%4]
		}
	}
	return ""
}

type recorder struct {
	mu  sync.Mutex
	evs []Event
}

func (r *recorder) log(e Event) {
	r.mu.Lock()
	r.evs = append(r.evs, e)
	r.mu.Unlock()
}
func (r *recorder) snapshot() []Event {
	r.mu.Lock()
	defer r.mu.Unlock()
	return append([]Event(nil), r.evs...)
}
func (r *recorder) has(k string) bool {
	for _, e := range r.snapshot() {
		if e.K == k {
			return true
		}
	}
	return false
}

func accepts(pred string, md map[string]string) bool {
	switch pred {
	case "T":
		return true
	case "F":
		return false
	case "A":
		return md["cls"] == "a"
	case "B":
		return md["cls"] == "b"
	}
	return true
}

func seqOf(id string) int {
	n, _ := strconv.Atoi(strings.TrimPrefix(id, "e"))
	return n
}

// the test sends its envelopes without from, pp and to: that is how a handler must see them
func unaddressed(e lime.Envelope) bool {
	return e.From == lime.Node{} && e.PP == lime.Node{} && e.To == lime.Node{}
}

func sameAsSent(id string, md map[string]string, extraOK bool) string {
	if strings.HasPrefix(id, "e") && md["marker"] == "m-"+id && extraOK {
		return "same"
	}
	return "diff"
}

// buildMux registers the table of the case; handlers log their invocation.
func buildMux(c Case, r *recorder) *lime.EnvelopeMux {
	m := &lime.EnvelopeMux{}
	tab := map[string][]H{}
	for _, k := range kinds {
		tab[k] = []H{{Pred: "nil", Out: "ok"}}
	}
	tab[c.Cfg.Focus] = c.Cfg.Hs
	outcome := func(h H) error {
		if h.Out == "err" {
			if c.N%2 == 1 { // an error that wraps a context error (the handler's own sub-deadline, say)
				return fmt.Errorf("handler failed: %w", context.DeadlineExceeded)
			}
			return errors.New("handler failed")
		}
		return nil
	}
	for i, h := range tab["msg"] {
		idx, h := i+1, h
		f := func(ctx context.Context, e *lime.Message, s lime.Sender) error {
			txt, _ := e.Content.(*lime.TextDocument)
			r.log(Event{K: "call", Seq: seqOf(e.ID), Kind: "msg", Idx: idx, Res: sameAsSent(e.ID, e.Metadata, txt != nil && string(*txt) == "body-"+e.ID && unaddressed(e.Envelope))})
			return outcome(h)
		}
		if h.Pred == "nil" {
			m.MessageHandlerFunc(nil, f)
		} else {
			m.MessageHandlerFunc(func(e *lime.Message) bool { return accepts(h.Pred, e.Metadata) }, f)
		}
	}
	for i, h := range tab["not"] {
		idx, h := i+1, h
		f := func(ctx context.Context, e *lime.Notification) error {
			r.log(Event{K: "call", Seq: seqOf(e.ID), Kind: "not", Idx: idx, Res: sameAsSent(e.ID, e.Metadata, e.Event == lime.NotificationEventConsumed && unaddressed(e.Envelope))})
			return outcome(h)
		}
		if h.Pred == "nil" {
			m.NotificationHandlerFunc(nil, f)
		} else {
			m.NotificationHandlerFunc(func(e *lime.Notification) bool { return accepts(h.Pred, e.Metadata) }, f)
		}
	}
	for i, h := range tab["req"] {
		idx, h := i+1, h
		f := func(ctx context.Context, e *lime.RequestCommand, s lime.Sender) error {
			r.log(Event{K: "call", Seq: seqOf(e.ID), Kind: "req", Idx: idx, Res: sameAsSent(e.ID, e.Metadata, e.Method == lime.CommandMethodSet && e.URI != nil && e.URI.Path() == "/thing" && unaddressed(e.Envelope))})
			return outcome(h)
		}
		if h.Pred == "nil" {
			m.RequestCommandHandlerFunc(nil, f)
		} else {
			m.RequestCommandHandlerFunc(func(e *lime.RequestCommand) bool { return accepts(h.Pred, e.Metadata) }, f)
		}
	}
	for i, h := range tab["resp"] {
		idx, h := i+1, h
		f := func(ctx context.Context, e *lime.ResponseCommand, s lime.Sender) error {
			r.log(Event{K: "call", Seq: seqOf(e.ID), Kind: "resp", Idx: idx, Res: sameAsSent(e.ID, e.Metadata, e.Status == lime.CommandStatusFailure && unaddressed(e.Envelope))})
			return outcome(h)
		}
		if h.Pred == "nil" {
			m.ResponseCommandHandlerFunc(nil, f)
		} else {
			m.ResponseCommandHandlerFunc(func(e *lime.ResponseCommand) bool { return accepts(h.Pred, e.Metadata) }, f)
		}
	}
	return m
}

type sender interface {
	SendMessage(ctx context.Context, msg *lime.Message) error
	SendNotification(ctx context.Context, not *lime.Notification) error
	SendRequestCommand(ctx context.Context, cmd *lime.RequestCommand) error
	SendResponseCommand(ctx context.Context, cmd *lime.ResponseCommand) error
}

func sendOne(ctx context.Context, s sender, kind string, seq int, cls string) error {
	id := "e" + strconv.Itoa(seq)
	env := lime.Envelope{ID: id, Metadata: map[string]string{"cls": cls, "marker": "m-" + id}}
	switch kind {
	case "msg":
		m := &lime.Message{Envelope: env}
		m.SetContent(lime.TextDocument("body-" + id))
		return s.SendMessage(ctx, m)
	case "not":
		return s.SendNotification(ctx, &lime.Notification{Envelope: env, Event: lime.NotificationEventConsumed})
	case "req":
		c := &lime.RequestCommand{}
		c.Envelope = env
		c.Method = lime.CommandMethodSet
		c.SetURIString("/thing")
		return s.SendRequestCommand(ctx, c)
	}
	c := &lime.ResponseCommand{}
	c.Envelope = env
	c.Method = lime.CommandMethodSet
	c.Status = lime.CommandStatusFailure
	return s.SendResponseCommand(ctx, c)
}

// ports come from a private range, one after the other (listening sockets can be rebound at
// once; probing with throw-away sockets would exhaust the ephemeral range over 10^4 cases)
var portCounter int32

func nextAddr() *net.TCPAddr {
	n := atomic.AddInt32(&portCounter, 1)
	return &net.TCPAddr{IP: net.IPv4(127, 0, 0, 1), Port: 20000 + int(n)%12000}
}

var serving sync.Map // *lime.Server -> chan struct{}

func init() {
	prev := lime.VerifHook
	lime.VerifHook = func(point string, args ...interface{}) {
		if point == "las.serving" && len(args) == 1 {
			if ch, ok := serving.Load(args[0]); ok {
				close(ch.(chan struct{}))
			}
		}
		if prev != nil {
			prev(point, args...)
		}
	}
}

var guest = func([]lime.AuthenticationScheme, lime.Authentication) lime.Authentication {
	return &lime.GuestAuthentication{}
}
var srvNode = lime.Node{Identity: lime.Identity{Name: "postmaster", Domain: "example.com"}, Instance: "srv"}

func replayServer(c Case, r *recorder) string {
	mux := buildMux(c, r)
	cfg := lime.NewServerConfig()
	cfg.Node = srvNode
	cfg.SchemeOpts = []lime.AuthenticationScheme{lime.AuthenticationSchemeGuest}
	cfg.ChannelBufferSize = 0
	cfg.EncryptOpts = []lime.SessionEncryption{lime.SessionEncryptionNone}
	cfg.Authenticate = func(context.Context, lime.Identity, lime.Authentication) (*lime.AuthenticationResult, error) {
		return lime.MemberAuthenticationResult(), nil
	}
	var srv *lime.Server
	var addr *net.TCPAddr
	done := make(chan error, 1)
	started := false
	for try := 0; try < 50 && !started; try++ {
		addr = nextAddr()
		srv = lime.NewServer(cfg, mux, lime.NewBoundListener(lime.NewTCPTransportListener(&lime.TCPConfig{}), addr))
		up := make(chan struct{})
		serving.Store(srv, up)
		go func(s *lime.Server) { done <- s.ListenAndServe() }(srv)
		select {
		case <-up:
			started = true
		case <-done: // could not bind: next port
		case <-time.After(2 * time.Second):
		}
		serving.Delete(srv)
	}
	if !started {
		return "server-start-failed"
	}
	defer srv.Close()
	ctx, cancel := context.WithTimeout(context.Background(), 15*time.Second)
	defer cancel()
	t, err := lime.DialTcp(ctx, addr, nil)
	if err != nil {
		return "dial: " + err.Error()
	}
	cc := lime.NewClientChannel(t, 4)
	ses, err := cc.EstablishSession(ctx, lime.NoneCompressionSelector, lime.NoneEncryptionSelector, lime.Identity{Name: "cli", Domain: "example.com"}, guest, "i")
	if err != nil || ses.State != lime.SessionStateEstablished {
		return fmt.Sprint("establish: ", err)
	}
	defer cc.Close()
	note := ""
	for i, in := range c.Inbox {
		kind := c.Cfg.Focus
		if !in.Own {
			kind = other(kind)
		}
		r.log(Event{K: "in", Seq: i + 1, Kind: kind, Cls: in.Cls})
		sctx, scancel := context.WithTimeout(ctx, 2*time.Second)
		_ = sendOne(sctx, cc, kind, i+1, in.Cls)
		scancel()
		// the envelope is dispatched (or dropped) before the next one is read; give a handler error
		// the time to finish the session before the next envelope is written
		select {
		case <-cc.RcvDone():
		case <-time.After(3 * time.Millisecond):
		}
	}
	select {
	case <-cc.RcvDone():
	case <-time.After(40 * time.Millisecond):
	}
	select {
	case <-cc.RcvDone():
		if cc.State() == lime.SessionStateFinished {
			r.log(Event{K: "finished", Res: "server"})
		} else {
			note += "receiver-ended-in-state-" + string(cc.State()) + ";"
		}
	default:
		fs, err := cc.FinishSession(ctx)
		if err == nil && fs.State == lime.SessionStateFinished {
			r.log(Event{K: "finished", Res: "client"})
		} else {
			select {
			case <-cc.RcvDone():
			case <-time.After(time.Second):
			}
			if cc.State() == lime.SessionStateFinished {
				r.log(Event{K: "finished", Res: "server"})
			} else {
				note += fmt.Sprint("finish: ", err, ";")
			}
		}
	}
	r.log(Event{K: "end"})
	return note
}

func replayClient(c Case, r *recorder) string {
	mux := buildMux(c, r)
	ctx, cancel := context.WithTimeout(context.Background(), 15*time.Second)
	defer cancel()
	var lis lime.TransportListener
	var addr *net.TCPAddr
	var lerr error
	for try := 0; try < 50; try++ {
		addr = nextAddr()
		lis = lime.NewTCPTransportListener(&lime.TCPConfig{})
		if lerr = lis.Listen(ctx, addr); lerr == nil {
			break
		}
	}
	if lerr != nil {
		return "listen: " + lerr.Error()
	}
	defer lis.Close()
	ct, err := lime.DialTcp(ctx, addr, nil)
	if err != nil {
		return "dial: " + err.Error()
	}
	st, err := lis.Accept(ctx)
	if err != nil {
		return "accept: " + err.Error()
	}
	sc := lime.NewServerChannel(st, 4, srvNode, "5e551041-0000-4000-8000-000000000c20")
	est := make(chan error, 1)
	go func() {
		est <- sc.EstablishSession(ctx, []lime.SessionCompression{lime.SessionCompressionNone},
			[]lime.SessionEncryption{lime.SessionEncryptionNone}, []lime.AuthenticationScheme{lime.AuthenticationSchemeGuest},
			func(context.Context, lime.Identity, lime.Authentication) (*lime.AuthenticationResult, error) {
				return lime.MemberAuthenticationResult(), nil
			},
			func(ctx context.Context, n lime.Node, c *lime.ServerChannel) (lime.Node, error) { return n, nil })
	}()
	cc := lime.NewClientChannel(ct, 0)
	ses, err := cc.EstablishSession(ctx, lime.NoneCompressionSelector, lime.NoneEncryptionSelector, lime.Identity{Name: "cli", Domain: "example.com"}, guest, "i")
	if err != nil || ses.State != lime.SessionStateEstablished {
		return fmt.Sprint("establish: ", err)
	}
	if err := <-est; err != nil {
		return "server establish: " + err.Error()
	}
	defer cc.Close()
	lctx, lcancel := context.WithCancel(ctx)
	defer lcancel()
	listenDone := make(chan error, 1)
	go func() { listenDone <- mux.ListenClient(lctx, cc) }()
	stopped := false
	checkStop := func(d time.Duration) {
		if stopped {
			return
		}
		select {
		case err := <-listenDone:
			stopped = true
			if err != nil {
				r.log(Event{K: "stop"})
			} else {
				listenDone <- nil
			}
		case <-time.After(d):
		}
	}
	for i, in := range c.Inbox {
		kind := c.Cfg.Focus
		if !in.Own {
			kind = other(kind)
		}
		r.log(Event{K: "in", Seq: i + 1, Kind: kind, Cls: in.Cls})
		sctx, scancel := context.WithTimeout(ctx, 2*time.Second)
		_ = sendOne(sctx, sc, kind, i+1, in.Cls)
		scancel()
		checkStop(3 * time.Millisecond)
	}
	checkStop(40 * time.Millisecond)
	note := ""
	if !stopped {
		// the session went on to the end: the server finishes it and the client's loop returns
		go func() {
			fctx, fcancel := context.WithTimeout(context.Background(), 8*time.Second)
			defer fcancel()
			_ = sc.FinishSession(fctx)
		}()
		select {
		case err := <-listenDone:
			if err == nil {
				r.log(Event{K: "finished", Res: "client"})
			} else {
				r.log(Event{K: "stop"})
			}
		case <-time.After(8 * time.Second):
			note += "listen-client-never-returned;"
		}
	}
	r.log(Event{K: "end"})
	if sc.Established() {
		go func() {
			fctx, fcancel := context.WithTimeout(context.Background(), 2*time.Second)
			defer fcancel()
			_ = sc.FinishSession(fctx)
		}()
	}
	return note
}

// Replay runs one case.
func Replay(c Case) Result {
	r := &recorder{}
	res := Result{N: c.N, Cfg: c.Cfg}
	if c.Cfg.Role == "server" {
		res.Note = replayServer(c, r)
	} else {
		res.Note = replayClient(c, r)
	}
	res.Actual = canon(r.snapshot())
	res.Match = len(res.Actual) == len(c.Obs)
	if res.Match {
		for i := range c.Obs {
			if c.Obs[i] != res.Actual[i] {
				res.Match = false
			}
		}
	}
	return res
}

// canon lists every call right after the `in` of its envelope. With unbuffered streams envelope
// i is dispatched before the receiver reads envelope i+1, but the harness logs `in i+1` when it
// writes it, which may be before the handler of envelope i got to log its call.
func canon(evs []Event) []Event {
	var out, rest []Event
	calls := map[int][]Event{}
	for _, e := range evs {
		if e.K == "call" {
			calls[e.Seq] = append(calls[e.Seq], e)
		}
	}
	for _, e := range evs {
		switch e.K {
		case "call":
		case "in":
			out = append(out, e)
			out = append(out, calls[e.Seq]...)
			delete(calls, e.Seq)
		default:
			rest = append(rest, e)
		}
	}
	for _, cs := range calls { // calls without an `in`: keep them visible
		out = append(out, cs...)
	}
	// stop belongs right after the erring call: keep it before the remaining ins only if it was logged so
	return append(out, rest...)
}
