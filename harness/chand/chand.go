// Package chand runs perturbed free runs of an established session over every
// transport: concurrent senders in both directions, mixed kinds and sizes,
// bounded buffers, slow handlers, and a seeded way and moment of ending the
// session. It records what senders, handlers and both parties observe
// (ChanProps.tla). One run per process: a panic on a library goroutine (for
// instance a concurrent websocket write) takes the process down.
package chand

import (
	"bytes"
	"context"
	"encoding/json"
	"fmt"
	"io"
	"math/rand"
	"net"
	"os"
	"runtime"
	"strconv"
	"strings"
	"sync"
	"sync/atomic"
	"time"

	lime "github.com/takenet/lime-go"
	"verif/harness/hs"
)

// Event mirrors H0 of ChanProps.tla.
type Event struct {
	K    string `json:"k"`
	G    string `json:"g"`
	I    int    `json:"i"`
	Kind string `json:"kind"`
	Res  string `json:"res"`
	N    int    `json:"n"`
}

type Cfg struct {
	Transport string `json:"transport"` // inproc | tcp | tls | ws | wss
	Buffer    int    `json:"buffer"`
	Senders   int    `json:"senders"`
	Count     int    `json:"count"`
	Payload   string `json:"payload"`   // small | big
	Delay     int    `json:"delay"`     // handler delay in microseconds
	Initiator string `json:"initiator"` // cfinish | sfinish | sfail | cclose | sclose
	Busy      bool   `json:"busy"`      // end the session while the senders are still at work
	Seed      int    `json:"seed"`
	Sessions  int    `json:"sessions,omitempty"` // > 1: several clients at once (C17)
	Stall     string `json:"stall,omitempty"`    // the terminating server's consumer is stuck in a handler of this kind
	Idle      int    `json:"idle,omitempty"`     // ms of silence between two phases of traffic (longer than the TCP read poll)
}

type Case struct {
	N   int `json:"n"`
	Cfg Cfg `json:"cfg"`
}

type logger struct {
	mu  sync.Mutex
	enc *json.Encoder
	n   int32
}

func (l *logger) log(e Event) {
	l.mu.Lock()
	l.enc.Encode(e)
	l.mu.Unlock()
	atomic.AddInt32(&l.n, 1)
}

var kinds = []string{"msg", "not", "req", "resp"}

// tap records what a TCP transport writes (plain JSON, also under TLS), in order.
type tap struct {
	mu  sync.Mutex
	buf bytes.Buffer
	s   io.Writer
	r   io.Writer
}

type tapWriter struct{ t *tap }

func (w tapWriter) Write(b []byte) (int, error) {
	w.t.mu.Lock()
	w.t.buf.Write(b)
	w.t.mu.Unlock()
	return len(b), nil
}

func newTap() *tap {
	t := &tap{r: io.Discard}
	t.s = tapWriter{t}
	return t
}
func (t *tap) SendWriter() *io.Writer    { return &t.s }
func (t *tap) ReceiveWriter() *io.Writer { return &t.r }

// afterTerminal counts the non-session envelopes written after a finished / failed session envelope.
func (t *tap) afterTerminal() int {
	t.mu.Lock()
	data := append([]byte(nil), t.buf.Bytes()...)
	t.mu.Unlock()
	dec := json.NewDecoder(bytes.NewReader(data))
	over, n := false, 0
	for {
		var m map[string]interface{}
		if err := dec.Decode(&m); err != nil {
			return n
		}
		st, _ := m["state"].(string)
		if st == "finished" || st == "failed" {
			over = true
			continue
		}
		if over && st == "" {
			n++
		}
	}
}

func payload(mode string, rng *rand.Rand) string {
	if mode == "big" && rng.Intn(3) == 0 {
		return strings.Repeat("x", 60000+rng.Intn(8000))
	}
	return "p" + strconv.Itoa(rng.Intn(1000))
}

type sender interface {
	SendMessage(ctx context.Context, msg *lime.Message) error
	SendNotification(ctx context.Context, not *lime.Notification) error
	SendRequestCommand(ctx context.Context, cmd *lime.RequestCommand) error
	SendResponseCommand(ctx context.Context, cmd *lime.ResponseCommand) error
}

func sendOne(ctx context.Context, s sender, kind, g string, i int, body string) error {
	id := g + ":" + strconv.Itoa(i)
	env := lime.Envelope{ID: id, Metadata: map[string]string{"sum": strconv.Itoa(len(body))}}
	switch kind {
	case "msg":
		m := &lime.Message{Envelope: env}
		m.SetContent(lime.TextDocument(body))
		return s.SendMessage(ctx, m)
	case "not":
		env.Metadata["body"] = body
		return s.SendNotification(ctx, &lime.Notification{Envelope: env, Event: lime.NotificationEventReceived})
	case "req":
		c := &lime.RequestCommand{}
		c.Envelope = env
		c.Method = lime.CommandMethodSet
		c.SetURIString("/r")
		c.SetResource(lime.TextDocument(body))
		return s.SendRequestCommand(ctx, c)
	}
	c := &lime.ResponseCommand{}
	c.Envelope = env
	c.Method = lime.CommandMethodSet
	c.Status = lime.CommandStatusSuccess
	c.SetResource(lime.TextDocument(body))
	return s.SendResponseCommand(ctx, c)
}

func splitID(id string) (string, int) {
	j := strings.LastIndexByte(id, ':')
	if j < 0 {
		return id, 0
	}
	n, _ := strconv.Atoi(id[j+1:])
	return id[:j], n
}

func textLen(d lime.Document) int {
	switch v := d.(type) {
	case *lime.TextDocument:
		return len(*v)
	case lime.TextDocument:
		return len(v)
	}
	return -1
}

// mkMux registers handlers that log every delivery (and check the content arrived intact).
func mkMux(l *logger, delay time.Duration) *lime.EnvelopeMux {
	return mkMuxStall(l, delay, "", nil, nil)
}

// mkMuxStall: the handler of kind stall reports that it was entered and does not return before release is closed.
func mkMuxStall(l *logger, delay time.Duration, stall string, entered chan<- struct{}, release <-chan struct{}) *lime.EnvelopeMux {
	m := &lime.EnvelopeMux{}
	rec := func(kind, id string, md map[string]string, n int) {
		if delay > 0 {
			time.Sleep(delay)
		}
		if stall != "" && kind == stall {
			select {
			case entered <- struct{}{}:
			default:
			}
			<-release
		}
		g, i := splitID(id)
		res := "intact"
		if md["sum"] != strconv.Itoa(n) {
			res = "corrupt"
		}
		l.log(Event{K: "delivered", G: g, I: i, Kind: kind, Res: res})
	}
	m.MessageHandlerFunc(nil, func(ctx context.Context, e *lime.Message, s lime.Sender) error {
		rec("msg", e.ID, e.Metadata, textLen(e.Content))
		return nil
	})
	m.NotificationHandlerFunc(nil, func(ctx context.Context, e *lime.Notification) error {
		rec("not", e.ID, e.Metadata, len(e.Metadata["body"]))
		return nil
	})
	m.RequestCommandHandlerFunc(nil, func(ctx context.Context, e *lime.RequestCommand, s lime.Sender) error {
		rec("req", e.ID, e.Metadata, textLen(e.Resource))
		return nil
	})
	m.ResponseCommandHandlerFunc(nil, func(ctx context.Context, e *lime.ResponseCommand, s lime.Sender) error {
		rec("resp", e.ID, e.Metadata, textLen(e.Resource))
		return nil
	})
	// a second handler of every kind that accepts everything as well: it must never run (first match
	// only); if it does, the envelope has been delivered twice
	rec2 := func(kind, id string) {
		g, i := splitID(id)
		l.log(Event{K: "delivered", G: g, I: i, Kind: kind, Res: "second"})
	}
	m.MessageHandlerFunc(func(*lime.Message) bool { return true }, func(ctx context.Context, e *lime.Message, s lime.Sender) error {
		rec2("msg", e.ID)
		return nil
	})
	m.NotificationHandlerFunc(func(*lime.Notification) bool { return true }, func(ctx context.Context, e *lime.Notification) error {
		rec2("not", e.ID)
		return nil
	})
	m.RequestCommandHandlerFunc(func(*lime.RequestCommand) bool { return true }, func(ctx context.Context, e *lime.RequestCommand, s lime.Sender) error {
		rec2("req", e.ID)
		return nil
	})
	m.ResponseCommandHandlerFunc(func(*lime.ResponseCommand) bool { return true }, func(ctx context.Context, e *lime.ResponseCommand, s lime.Sender) error {
		rec2("resp", e.ID)
		return nil
	})
	return m
}

var portCounter int32

func nextAddr() *net.TCPAddr {
	n := atomic.AddInt32(&portCounter, 1)
	return &net.TCPAddr{IP: net.IPv4(127, 0, 0, 1), Port: 33000 + (os.Getpid()*7+int(n)*13)%20000}
}

func census() int {
	buf := make([]byte, 1<<22)
	n := runtime.Stack(buf, true)
	cnt := 0
	for _, blk := range bytes.Split(buf[:n], []byte("\n\n")) {
		for _, f := range []string{"lime-go.receiveFromTransport", "lime-go.(*Server).handleChannel", "lime-go.(*EnvelopeMux).listen",
			"lime-go.(*websocketTransport)", "lime-go.(*Client).startListener", "lime-go.acceptTransports", "lime-go.(*Server).consumeTransports"} {
			if bytes.Contains(blk, []byte(f)) {
				cnt++
				break
			}
		}
	}
	return cnt
}

type side struct {
	name      string
	s         sender
	listening chan struct{} // closed when the dispatch loop of this side returned
}

// Run executes one free run and streams its events to stdout.
func jsonEncoder() *json.Encoder { return json.NewEncoder(os.Stdout) }

func Run(c Case) int {
	if c.Cfg.Sessions > 1 {
		return RunIso(c)
	}
	cfg := c.Cfg
	l := &logger{enc: json.NewEncoder(os.Stdout)}
	rng := rand.New(rand.NewSource(int64(cfg.Seed)*7919 + int64(c.N)))
	delay := time.Duration(cfg.Delay) * time.Microsecond

	// ---- server
	scfg := lime.NewServerConfig()
	scfg.Node = lime.Node{Identity: lime.Identity{Name: "postmaster", Domain: "example.com"}, Instance: "srv"}
	scfg.SchemeOpts = []lime.AuthenticationScheme{lime.AuthenticationSchemeGuest}
	scfg.EncryptOpts = []lime.SessionEncryption{lime.SessionEncryptionNone, lime.SessionEncryptionTLS}
	scfg.ChannelBufferSize = cfg.Buffer
	scfg.Authenticate = func(context.Context, lime.Identity, lime.Authentication) (*lime.AuthenticationResult, error) {
		return lime.MemberAuthenticationResult(), nil
	}
	established := make(chan *lime.ServerChannel, 4)
	srvFinished := make(chan struct{}, 4)
	scfg.Established = func(sid string, sc *lime.ServerChannel) { established <- sc }
	scfg.Finished = func(sid string) { srvFinished <- struct{}{} }
	stallEntered := make(chan struct{}, 1)
	stallRelease := make(chan struct{})
	smux := mkMuxStall(l, delay, cfg.Stall, stallEntered, stallRelease)
	var bl lime.BoundListener
	var srvTap *tap
	var dial func(ctx context.Context) (lime.Transport, error)
	var srv *lime.Server
	lasDone := make(chan error, 1)
	started := false
	for try := 0; try < 30 && !started; try++ {
		addr := nextAddr()
		switch cfg.Transport {
		case "inproc":
			ia := lime.InProcessAddr(fmt.Sprintf("chand-%d-%d", os.Getpid(), try))
			bl = lime.NewBoundListener(lime.NewInProcessTransportListener(ia), ia)
			dial = func(ctx context.Context) (lime.Transport, error) { return lime.DialInProcess(ia, cfg.Buffer+1) }
		case "tcp", "tls":
			// a read limit that every envelope fits in and the traffic as a whole exceeds many times over
			srvTap = newTap()
			tc := &lime.TCPConfig{ReadLimit: 72 * 1024, TraceWriter: srvTap}
			cc := &lime.TCPConfig{ReadLimit: 72 * 1024}
			if cfg.Transport == "tls" {
				tc.TLSConfig, cc.TLSConfig = hs.ServerTLS, hs.ClientTLS
			}
			bl = lime.NewBoundListener(lime.NewTCPTransportListener(tc), addr)
			dial = func(ctx context.Context) (lime.Transport, error) { return lime.DialTcp(ctx, addr, cc) }
		case "ws", "wss":
			wc := &lime.WebsocketConfig{}
			url := "ws://" + addr.String() + "/"
			if cfg.Transport == "wss" {
				wc.TLSConfig = hs.ServerTLS
				url = "wss://" + addr.String() + "/"
			}
			bl = lime.NewBoundListener(lime.NewWebsocketTransportListener(wc), addr)
			dial = func(ctx context.Context) (lime.Transport, error) {
				if cfg.Transport == "wss" {
					return lime.DialWebsocket(ctx, url, nil, hs.ClientTLS)
				}
				return lime.DialWebsocket(ctx, url, nil, nil)
			}
		}
		srv = lime.NewServer(scfg, smux, bl)
		go func(s *lime.Server) { lasDone <- s.ListenAndServe() }(srv)
		// serving? (a failed bind makes ListenAndServe return at once)
		select {
		case <-lasDone:
		case <-time.After(30 * time.Millisecond):
			started = true
		}
	}
	if !started {
		fmt.Fprintln(os.Stderr, "could not start the server")
		return 2
	}
	ctx, cancel := context.WithTimeout(context.Background(), 40*time.Second)
	defer cancel()

	// ---- client
	var t lime.Transport
	var err error
	for i := 0; i < 100; i++ {
		t, err = dial(ctx)
		if err == nil {
			break
		}
		time.Sleep(5 * time.Millisecond)
	}
	if err != nil {
		fmt.Fprintln(os.Stderr, "dial:", err)
		return 2
	}
	cc := lime.NewClientChannel(t, cfg.Buffer)
	encSel := lime.NoneEncryptionSelector
	if cfg.Transport == "tls" {
		encSel = lime.TLSEncryptionSelector
	}
	if cfg.Transport == "wss" {
		encSel = func(o []lime.SessionEncryption) lime.SessionEncryption { return lime.SessionEncryptionTLS }
	}
	ses, err := cc.EstablishSession(ctx, lime.NoneCompressionSelector, encSel, lime.Identity{Name: "cli", Domain: "example.com"},
		func([]lime.AuthenticationScheme, lime.Authentication) lime.Authentication {
			return &lime.GuestAuthentication{}
		}, "i")
	if err != nil || ses.State != lime.SessionStateEstablished {
		fmt.Fprintln(os.Stderr, "establish:", err)
		return 2
	}
	var sc *lime.ServerChannel
	select {
	case sc = <-established:
	case <-time.After(5 * time.Second):
		fmt.Fprintln(os.Stderr, "no established callback")
		return 2
	}
	cmux := mkMux(l, delay)
	cliListen := make(chan struct{})
	go func() {
		defer close(cliListen)
		_ = cmux.ListenClient(ctx, cc)
	}()

	// ---- traffic, both directions at once
	var wg sync.WaitGroup
	stopSending := make(chan struct{})
	var sentCount int32
	sendTimeout := 10 * time.Second
	if cfg.Idle > 0 {
		sendTimeout = 2 * time.Second // (long gone by the time the second phase starts)
	}
	phase := "g"
	run := func(sd side, idx int) {
		defer wg.Done()
		g := sd.name + "." + phase + strconv.Itoa(idx)
		srng := rand.New(rand.NewSource(int64(cfg.Seed)*31 + int64(idx)*101 + int64(len(sd.name)) + int64(len(phase))))
		for i := 1; i <= cfg.Count; i++ {
			select {
			case <-stopSending:
				return
			default:
			}
			kind := kinds[srng.Intn(4)]
			if cfg.Stall != "" && sd.name == "C" {
				kind = cfg.Stall // everything the server receives piles up behind its stuck consumer
			}
			body := payload(cfg.Payload, srng)
			l.log(Event{K: "sendcall", G: g, I: i, Kind: kind})
			sctx, scancel := context.WithTimeout(ctx, sendTimeout)
			err := sendOne(sctx, sd.s, kind, g, i, body)
			scancel()
			if err != nil {
				l.log(Event{K: "senderr", G: g, I: i, Kind: kind})
				return
			}
			l.log(Event{K: "sent", G: g, I: i, Kind: kind})
			atomic.AddInt32(&sentCount, 1)
			if srng.Intn(4) == 0 {
				runtime.Gosched()
			}
		}
	}
	if cfg.Busy {
		l.log(Event{K: "teardown"})
	}
	for i := 1; i <= cfg.Senders; i++ {
		wg.Add(2)
		go run(side{name: "S", s: sc}, i)
		go run(side{name: "C", s: cc}, i)
	}
	sendersDone := make(chan struct{})
	go func() { wg.Wait(); close(sendersDone) }()
	if cfg.Stall != "" {
		// the server's consumer is inside its handler and the receiver behind it has filled the stream
		select {
		case <-stallEntered:
		case <-time.After(3 * time.Second):
		}
		time.Sleep(150 * time.Millisecond)
	} else if cfg.Busy {
		time.Sleep(time.Duration(rng.Intn(1500)) * time.Microsecond)
	} else {
		select {
		case <-sendersDone:
		case <-time.After(30 * time.Second):
		}
		// everything reported as sent must come out at the other end
		want := int(atomic.LoadInt32(&sentCount))*2 + cfg.Senders*2*cfg.Count // sendcall + sent + delivered per envelope
		_ = want
		dl := time.Now().Add(8 * time.Second)
		last := int32(-1)
		for time.Now().Before(dl) {
			n := atomic.LoadInt32(&l.n)
			if n == last {
				break
			}
			last = n
			time.Sleep(30*time.Millisecond + 4*delay)
		}
		if cfg.Idle > 0 {
			// nothing for longer than the transport's read poll, then traffic again: what was sent in the
			// second phase is owed just like the first
			time.Sleep(time.Duration(cfg.Idle) * time.Millisecond)
			phase = "hh"
			var wg2 sync.WaitGroup
			// one direction only: the receiving side has not sent anything since before the silence
			for i := 1; i <= cfg.Senders; i++ {
				wg.Add(1)
				wg2.Add(1)
				if cfg.Seed%2 == 0 {
					go func(i int) { defer wg2.Done(); run(side{name: "C", s: cc}, i) }(i)
				} else {
					go func(i int) { defer wg2.Done(); run(side{name: "S", s: sc}, i) }(i)
				}
			}
			done2 := make(chan struct{})
			go func() { wg2.Wait(); close(done2) }()
			select {
			case <-done2:
			case <-time.After(30 * time.Second):
			}
			dl2 := time.Now().Add(8 * time.Second)
			last2 := int32(-1)
			for time.Now().Before(dl2) {
				n := atomic.LoadInt32(&l.n)
				if n == last2 {
					break
				}
				last2 = n
				time.Sleep(30*time.Millisecond + 4*delay)
			}
		}
		l.log(Event{K: "barrier"})
	}

	// ---- end of the session
	how := "finish"
	ini := "C"
	switch cfg.Initiator {
	case "sfinish", "sclose":
		ini = "S"
	case "sfail":
		ini, how = "S", "fail"
	}
	l.log(Event{K: "term", G: ini, Kind: how, Res: cfg.Initiator})
	tctx, tcancel := context.WithTimeout(context.Background(), 8*time.Second)
	termDone := make(chan struct{})
	go func() {
		defer close(termDone)
		switch cfg.Initiator {
		case "cfinish", "cclose":
			_, _ = cc.FinishSession(tctx)
		case "sfinish":
			_ = sc.FinishSession(tctx)
		case "sfail":
			_ = sc.FailSession(tctx, &lime.Reason{Code: 9, Description: "ended by the test"})
		case "sclose":
			_ = srv.Close()
		}
	}()
	select {
	case <-termDone:
	case <-time.After(14 * time.Second): // its context ended 6 s ago
		l.log(Event{K: "stuck", G: "term"})
	}
	tcancel()
	close(stallRelease) // the slow consumer gets on with it
	close(stopSending)
	select {
	case <-sendersDone:
	case <-time.After(12 * time.Second):
		l.log(Event{K: "stuck", G: "senders"})
	}

	// ---- what both parties observe (TCP receivers only notice a cancellation at their next 5 s poll)
	waitClosed := func(ch <-chan struct{}, d time.Duration) bool {
		select {
		case <-ch:
			return true
		case <-time.After(d):
			return false
		}
	}
	obs := func(name string, rcvDone <-chan struct{}, state func() lime.SessionState, streams func() bool, listening <-chan struct{}) {
		if waitClosed(rcvDone, 7*time.Second) {
			l.log(Event{K: "rcvdone", G: name})
		}
		// what follows the end of the receiver takes a moment: the receiver closes its streams one after
		// the other, and a server whose receiver ended on the client's 'finishing' first drains its
		// dispatch loop and then answers with 'finished'
		settle := func(ok func() bool, d time.Duration) bool {
			dl := time.Now().Add(d)
			for !ok() && time.Now().Before(dl) {
				time.Sleep(2 * time.Millisecond)
			}
			return ok()
		}
		settle(func() bool {
			st := state()
			return st == lime.SessionStateFinished || st == lime.SessionStateFailed
		}, 4*time.Second)
		l.log(Event{K: "peerstate", G: name, Kind: string(state()), Res: cfg.Transport})
		if settle(streams, time.Second) {
			l.log(Event{K: "streams", G: name})
		}
		if waitClosed(listening, 7*time.Second) {
			l.log(Event{K: "consumers", G: name})
		}
	}
	closedChan := func(ch interface{}) bool { // a closed, drained stream yields its zero value at once
		switch v := ch.(type) {
		case <-chan *lime.Message:
			for {
				select {
				case _, ok := <-v:
					if !ok {
						return true
					}
				default:
					return false
				}
			}
		case <-chan *lime.Notification:
			for {
				select {
				case _, ok := <-v:
					if !ok {
						return true
					}
				default:
					return false
				}
			}
		case <-chan *lime.RequestCommand:
			for {
				select {
				case _, ok := <-v:
					if !ok {
						return true
					}
				default:
					return false
				}
			}
		case <-chan *lime.ResponseCommand:
			for {
				select {
				case _, ok := <-v:
					if !ok {
						return true
					}
				default:
					return false
				}
			}
		}
		return false
	}
	srvListening := make(chan struct{})
	go func() { // the server's dispatch loop is over when its Finished callback ran
		select {
		case <-srvFinished:
		case <-time.After(9 * time.Second):
			return
		}
		close(srvListening)
	}()
	obs("C", cc.RcvDone(), cc.State, func() bool {
		return closedChan(cc.MsgChan()) && closedChan(cc.NotChan()) && closedChan(cc.ReqCmdChan()) && closedChan(cc.RespCmdChan())
	}, cliListen)
	obs("S", sc.RcvDone(), sc.State, func() bool {
		return closedChan(sc.MsgChan()) && closedChan(sc.NotChan()) && closedChan(sc.ReqCmdChan()) && closedChan(sc.RespCmdChan())
	}, srvListening)
	if ini == "C" && !cc.Established() && !lime.VerifTransport(cc).Connected() {
		l.log(Event{K: "conn", G: "C"})
	}
	if ini == "S" && !lime.VerifTransport(sc).Connected() {
		l.log(Event{K: "conn", G: "S"})
	}
	// C06: nothing but session envelopes on the terminating server's wire after its terminal envelope
	if srvTap != nil && ini == "S" {
		l.log(Event{K: "wire", G: "S", N: srvTap.afterTerminal()})
	}
	// C06: once the session is over, the send operations of both sides fail. (Idle sessions only, where
	// the terminal envelope has certainly reached the observer: during traffic over a socket it may
	// never be told, F-C13-7.)
	if !cfg.Busy && cfg.Stall == "" {
		late := func(name string, sd sender, _ func() lime.SessionState) {
			for _, kind := range kinds {
				lctx, lcancel := context.WithTimeout(context.Background(), 300*time.Millisecond)
				err := sendOne(lctx, sd, kind, name+".late", 1, "x")
				lcancel()
				res := "err"
				if err == nil {
					res = "ok"
				}
				l.log(Event{K: "latesend", G: name, Kind: kind, Res: res})
			}
		}
		late("C", cc, cc.State)
		late("S", sc, sc.State)
	}
	// the observer closes its channel; then nothing of the session may be left
	_ = cc.Close()
	_ = sc.Close()
	_ = srv.Close()
	left := 0
	dl := time.Now().Add(8 * time.Second)
	for {
		left = census()
		if left == 0 || time.Now().After(dl) {
			break
		}
		time.Sleep(20 * time.Millisecond)
	}
	l.log(Event{K: "end", N: left})
	return 0
}
