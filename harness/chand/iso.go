package chand

import (
	"context"
	"fmt"
	"net"
	"os"
	"strconv"
	"strings"
	"sync"
	"time"

	lime "github.com/takenet/lime-go"
)

// RunIso runs several sessions at once on one Server that listens on TCP, WebSocket and
// in-process at the same time (C17): every handler invocation is checked against the session
// whose client sent the envelope, and the reply sent through the handler's sender is followed
// to the client that receives it.
func RunIso(c Case) int {
	cfg := c.Cfg
	l := &logger{enc: jsonEncoder()}
	srvNode := lime.Node{Identity: lime.Identity{Name: "postmaster", Domain: "example.com"}, Instance: "srv"}
	type info struct {
		sid    string
		local  lime.Node // the address the server announced to the client
		remote lime.Node
	}
	var mu sync.Mutex
	known := map[string]info{}           // client name -> what its established session says
	registered := map[string]lime.Node{} // client name -> what Register returned for it

	scfg := lime.NewServerConfig()
	scfg.Node = srvNode
	scfg.SchemeOpts = []lime.AuthenticationScheme{lime.AuthenticationSchemeGuest}
	scfg.EncryptOpts = []lime.SessionEncryption{lime.SessionEncryptionNone}
	scfg.ChannelBufferSize = cfg.Buffer
	scfg.Authenticate = func(context.Context, lime.Identity, lime.Authentication) (*lime.AuthenticationResult, error) {
		return lime.MemberAuthenticationResult(), nil
	}
	scfg.Register = func(ctx context.Context, n lime.Node, sc *lime.ServerChannel) (lime.Node, error) {
		// arbitrary addresses: even-numbered clients all get the very same node
		out := lime.Node{Identity: lime.Identity{Name: "shared", Domain: "example.com"}, Instance: "same"}
		if k, _ := strconv.Atoi(strings.TrimPrefix(n.Name, "k")); k%2 == 1 {
			out = lime.Node{Identity: lime.Identity{Name: n.Name, Domain: "example.com"}, Instance: "own"}
		}
		mu.Lock()
		registered[n.Name] = out
		mu.Unlock()
		return out, nil
	}
	var gwOnce sync.Once
	var gateway func(context.Context)
	gwDone := make(chan struct{})
	smux := &lime.EnvelopeMux{}
	smux.MessageHandlerFunc(nil, func(ctx context.Context, m *lime.Message, s lime.Sender) error {
		who, i := splitID(m.ID)
		sid, _ := lime.ContextSessionID(ctx)
		remote, _ := lime.ContextSessionRemoteNode(ctx)
		local, _ := lime.ContextSessionLocalNode(ctx)
		mu.Lock()
		k, ok := known[who]
		reg := registered[who]
		mu.Unlock()
		res := "foreign"
		if ok && sid == k.sid && remote == reg && remote == k.local && local == srvNode {
			res = "own"
		}
		// the envelope itself is the sender's too: odd-numbered clients send a delegation node and
		// metadata of their own, even-numbered ones send neither
		idx, _ := strconv.Atoi(strings.TrimPrefix(who, "k"))
		if idx%2 == 1 {
			if m.PP.Name != "deleg-"+who || m.Metadata["who"] != who {
				res = "foreign"
			}
		} else if (m.PP != lime.Node{}) || len(m.Metadata) != 0 {
			res = "foreign"
		}
		l.log(Event{K: "dispatch", G: who, I: i, Res: res})
		if who == "k0" && i == 1 {
			// a gateway: while handling this message the application opens a session of its own (to this very
			// server) and listens on it with a context that descends from the handler's. What arrives on that
			// session belongs to that session, not to the one whose handler started it.
			gwOnce.Do(func() { go gateway(ctx) })
		}
		r := &lime.Message{}
		r.ID = "re:" + m.ID
		r.SetContent(lime.TextDocument("reply"))
		rctx, cancel := context.WithTimeout(ctx, 5*time.Second)
		defer cancel()
		_ = s.SendMessage(rctx, r)
		// and a question of the server's own, whose answer comes back through the response-command handler
		q := &lime.RequestCommand{}
		q.ID = "rq:" + m.ID
		q.Method = lime.CommandMethodGet
		q.SetURIString("/whoami")
		go func() { // (not from inside the handler: both ends of an unbuffered session would wait for each other)
			qctx, qcancel := context.WithTimeout(context.Background(), 5*time.Second)
			defer qcancel()
			_ = s.SendRequestCommand(qctx, q)
		}()
		return nil
	})
	smux.ResponseCommandHandlerFunc(nil, func(ctx context.Context, c *lime.ResponseCommand, s lime.Sender) error {
		who, i := splitID(strings.TrimPrefix(c.ID, "rq:"))
		sid, _ := lime.ContextSessionID(ctx)
		remote, _ := lime.ContextSessionRemoteNode(ctx)
		local, _ := lime.ContextSessionLocalNode(ctx)
		mu.Lock()
		k, ok := known[who]
		reg := registered[who]
		mu.Unlock()
		res := "foreign"
		if ok && sid == k.sid && remote == reg && local == srvNode {
			res = "own"
		}
		l.log(Event{K: "dispatch", G: who, I: i, Kind: "resp", Res: res})
		return nil
	})
	var srv *lime.Server
	var tcpAddr, wsAddr *net.TCPAddr
	gateway = func(hctx context.Context) {
		defer close(gwDone)
		dctx, dcancel := context.WithTimeout(context.Background(), 5*time.Second)
		defer dcancel()
		t, err := lime.DialTcp(dctx, tcpAddr, nil)
		if err != nil {
			return
		}
		up := lime.NewClientChannel(t, 4)
		ses, err := up.EstablishSession(dctx, lime.NoneCompressionSelector, lime.NoneEncryptionSelector,
			lime.Identity{Name: "k900", Domain: "example.com"},
			func([]lime.AuthenticationScheme, lime.Authentication) lime.Authentication { return &lime.GuestAuthentication{} }, "i")
		if err != nil || ses.State != lime.SessionStateEstablished {
			_ = t.Close()
			return
		}
		mu.Lock()
		known["k900"] = info{sid: up.ID(), local: up.LocalNode(), remote: up.RemoteNode()}
		mu.Unlock()
		got := make(chan struct{}, 1)
		upMux := &lime.EnvelopeMux{}
		upMux.MessageHandlerFunc(nil, func(c2 context.Context, m *lime.Message, s lime.Sender) error {
			sid, _ := lime.ContextSessionID(c2)
			res := "foreign"
			if sid == up.ID() {
				res = "own"
			}
			l.log(Event{K: "reply", G: "k900", I: 1, Res: res})
			select {
			case got <- struct{}{}:
			default:
			}
			return nil
		})
		upMux.RequestCommandHandlerFunc(nil, func(c2 context.Context, c *lime.RequestCommand, s lime.Sender) error {
			actx, acancel := context.WithTimeout(c2, 3*time.Second)
			defer acancel()
			return s.SendResponseCommand(actx, c.SuccessResponse())
		})
		lctx, lcancel := context.WithCancel(hctx) // descends from the handler's context
		go func() { _ = upMux.ListenClient(lctx, up) }()
		m := &lime.Message{}
		m.ID = "k900:1"
		m.SetContent(lime.TextDocument("ask"))
		sctx, scancel := context.WithTimeout(context.Background(), 3*time.Second)
		_ = up.SendMessage(sctx, m)
		scancel()
		select {
		case <-got:
		case <-time.After(3 * time.Second):
		}
		lcancel()
		fctx, fcancel := context.WithTimeout(context.Background(), 7*time.Second)
		_, _ = up.FinishSession(fctx)
		fcancel()
		_ = up.Close()
	}
	ia := lime.InProcessAddr(fmt.Sprintf("iso-%d", os.Getpid()))
	lasDone := make(chan error, 1)
	started := false
	for try := 0; try < 30 && !started; try++ {
		tcpAddr, wsAddr = nextAddr(), nextAddr()
		srv = lime.NewServer(scfg, smux,
			lime.NewBoundListener(lime.NewTCPTransportListener(&lime.TCPConfig{}), tcpAddr),
			lime.NewBoundListener(lime.NewWebsocketTransportListener(&lime.WebsocketConfig{}), wsAddr),
			lime.NewBoundListener(lime.NewInProcessTransportListener(ia), ia))
		go func(s *lime.Server) { lasDone <- s.ListenAndServe() }(srv)
		select {
		case <-lasDone:
		case <-time.After(40 * time.Millisecond):
			started = true
		}
	}
	if !started {
		fmt.Fprintln(os.Stderr, "could not start the server")
		return 2
	}
	ctx, cancel := context.WithTimeout(context.Background(), 40*time.Second)
	defer cancel()
	n := cfg.Sessions
	var wg sync.WaitGroup
	var dialMu sync.Mutex // the in-process listener registry is a plain map
	sids := make([]string, n)
	fail := make(chan string, n)
	for k := 0; k < n; k++ {
		wg.Add(1)
		go func(k int) {
			defer wg.Done()
			name := "k" + strconv.Itoa(k)
			var t lime.Transport
			var err error
			for try := 0; try < 100; try++ {
				kind := k % 3
				if cfg.Transport == "ws" { // every session over WebSocket (what the sessions share there, they share a lot)
					kind = 1
				}
				switch kind {
				case 0:
					t, err = lime.DialTcp(ctx, tcpAddr, nil)
				case 1:
					t, err = lime.DialWebsocket(ctx, "ws://"+wsAddr.String()+"/", nil, nil)
				default:
					dialMu.Lock()
					t, err = lime.DialInProcess(ia, cfg.Buffer+1)
					dialMu.Unlock()
				}
				if err == nil {
					break
				}
				time.Sleep(5 * time.Millisecond)
			}
			if err != nil {
				fail <- "dial: " + err.Error()
				return
			}
			cc := lime.NewClientChannel(t, cfg.Buffer)
			ectx, ecancel := context.WithTimeout(ctx, 10*time.Second)
			ses, err := cc.EstablishSession(ectx, lime.NoneCompressionSelector, lime.NoneEncryptionSelector,
				lime.Identity{Name: name, Domain: "example.com"},
				func([]lime.AuthenticationScheme, lime.Authentication) lime.Authentication {
					return &lime.GuestAuthentication{}
				}, "i")
			ecancel()
			if err != nil || ses.State != lime.SessionStateEstablished {
				// the server is up and the connection was made: this connection is not served as a
				// session of its own (no channel for it, or one that it shares with another connection)
				l.log(Event{K: "unserved", G: name, Res: fmt.Sprint(err)})
				_ = t.Close()
				return
			}
			mu.Lock()
			known[name] = info{sid: cc.ID(), local: cc.LocalNode(), remote: cc.RemoteNode()}
			mu.Unlock()
			sids[k] = cc.ID()
			got := make(chan struct{}, cfg.Count)
			cmux := &lime.EnvelopeMux{}
			cmux.MessageHandlerFunc(nil, func(ctx context.Context, m *lime.Message, s lime.Sender) error {
				target, i := splitID(strings.TrimPrefix(m.ID, "re:"))
				res := "foreign"
				if target == name {
					res = "own"
				}
				l.log(Event{K: "reply", G: name, I: i, Res: res})
				got <- struct{}{}
				return nil
			})
			cmux.RequestCommandHandlerFunc(nil, func(ctx context.Context, c *lime.RequestCommand, s lime.Sender) error {
				actx, acancel := context.WithTimeout(ctx, 3*time.Second)
				defer acancel()
				return s.SendResponseCommand(actx, c.SuccessResponse())
			})
			lctx, lcancel := context.WithCancel(ctx)
			go func() { _ = cmux.ListenClient(lctx, cc) }()
			for i := 1; i <= cfg.Count; i++ {
				m := &lime.Message{}
				m.ID = name + ":" + strconv.Itoa(i)
				m.SetContent(lime.TextDocument("ask"))
				if k%2 == 1 {
					m.PP = lime.Node{Identity: lime.Identity{Name: "deleg-" + name, Domain: "example.com"}, Instance: "d"}
					m.Metadata = map[string]string{"who": name}
				}
				sctx, scancel := context.WithTimeout(ctx, 5*time.Second)
				_ = cc.SendMessage(sctx, m)
				scancel()
			}
			for i := 0; i < cfg.Count; i++ {
				select {
				case <-got:
				case <-time.After(8 * time.Second):
					i = cfg.Count
				}
			}
			lcancel()
			fctx, fcancel := context.WithTimeout(context.Background(), 7*time.Second)
			_, _ = cc.FinishSession(fctx)
			fcancel()
			_ = cc.Close()
		}(k)
	}
	wg.Wait()
	select {
	case why := <-fail:
		fmt.Fprintln(os.Stderr, why)
		return 2
	default:
	}
	seen := map[string]bool{}
	res := "distinct"
	for _, s := range sids {
		if s == "" || seen[s] {
			res = "clash"
		}
		seen[s] = true
	}
	select { // the gateway session, if it was started
	case <-gwDone:
	case <-time.After(200 * time.Millisecond):
		select {
		case <-gwDone:
		case <-time.After(12 * time.Second):
		}
	}
	l.log(Event{K: "ids", Res: res, N: n})
	dialMu.Lock()
	_ = srv.Close()
	dialMu.Unlock()
	l.log(Event{K: "end", N: 0})
	return 0
}
