// Package srvlife drives a real lime Server through TLC-generated schedules of
// ServerLife.tla: the goroutines of ListenAndServe, acceptTransports,
// consumeTransports, handleChannel and Close are held at the verif hooks and
// released in the order the schedule says. One case per process (a panic on a
// library goroutine takes the process down); events are streamed to stdout.
package srvlife

import (
	"bytes"
	"context"
	"encoding/json"
	"errors"
	"fmt"
	"net"
	"os"
	"runtime"
	"sort"
	"strings"
	"sync"
	"sync/atomic"
	"time"

	lime "github.com/takenet/lime-go"
)

// Event mirrors S0 of SrvProps.tla.
type Event struct {
	K   string `json:"k"`
	S   string `json:"s"`
	L   string `json:"l"`
	Res string `json:"res"`
	A   string `json:"a"`
	B   string `json:"b"`
	N   int    `json:"n"`
}

type Step struct {
	P string `json:"p"`
	A string `json:"a"`
}

type Cfg struct {
	Tier      string            `json:"tier"`
	Outcome   map[string]string `json:"outcome"`
	Mode      string            `json:"mode,omitempty"`
	Seed      int               `json:"seed,omitempty"`
	Transport string            `json:"transport,omitempty"` // "inproc" (default) | "tcp"
}

type Case struct {
	N      int     `json:"n"`
	Cfg    Cfg     `json:"cfg"`
	Script []Step  `json:"script"`
	Obs    []Event `json:"obs"`
}

var gating = map[string]bool{"acc.accept": true, "acc.enqueue": true, "cons.select": true,
	"sess.start": true, "sess.handshake": true, "sess.finish": true,
	"close.cancelled": true, "close.listeners": true}

type arrival struct{ proc, point string }

type run struct {
	mu       sync.Mutex
	out      *json.Encoder
	free     int32
	release  map[string]chan struct{}
	parked   map[string]string
	arrivals chan arrival
	lisName  map[lime.TransportListener]string
	pendingL map[string][]string // listener -> connections dialled, not yet accepted
	dialled  map[string]lime.Transport
	served   map[string]bool // connections a session goroutine was started for
	connOf   map[lime.Transport]string
	chanOf   map[string]*lime.ServerChannel
	sidConn  map[string]string
	exited   map[string]bool
	nEvents  int32
}

var cur *run

func init() {
	prev := lime.VerifHook
	lime.VerifHook = func(point string, args ...interface{}) {
		if r := cur; r != nil {
			r.hook(point, args...)
		}
		if prev != nil {
			prev(point, args...)
		}
	}
}

func (r *run) log(e Event) {
	r.mu.Lock()
	r.out.Encode(e)
	r.mu.Unlock()
	atomic.AddInt32(&r.nEvents, 1)
}

func (r *run) gate(proc string) chan struct{} {
	r.mu.Lock()
	defer r.mu.Unlock()
	ch, ok := r.release[proc]
	if !ok {
		ch = make(chan struct{})
		r.release[proc] = ch
	}
	return ch
}

func (r *run) hook(point string, args ...interface{}) {
	proc := ""
	switch {
	case strings.HasPrefix(point, "acc."):
		l, _ := args[0].(lime.TransportListener)
		r.mu.Lock()
		name := r.lisName[l]
		if point == "acc.enqueue" && len(args) > 1 {
			if t, ok := args[1].(lime.Transport); ok && len(r.pendingL[name]) > 0 {
				r.connOf[t] = r.pendingL[name][0]
				r.pendingL[name] = r.pendingL[name][1:]
			}
		}
		if point == "acc.exit" {
			r.exited["acc:"+name] = true
		}
		r.mu.Unlock()
		proc = "acc:" + name
	case strings.HasPrefix(point, "cons."):
		proc = "cons"
		if point == "cons.exit" {
			r.mu.Lock()
			r.exited["cons"] = true
			r.mu.Unlock()
		}
	case strings.HasPrefix(point, "close."):
		proc = "close"
	case strings.HasPrefix(point, "sess."):
		t, _ := args[1].(lime.Transport)
		r.mu.Lock()
		c := r.connOf[t]
		r.mu.Unlock()
		proc = "sess:" + c
		if point == "sess.handshake" {
			res := "err"
			if len(args) > 2 && args[2] == nil {
				res = "failed"
				r.mu.Lock()
				sc := r.chanOf[c]
				r.mu.Unlock()
				if sc != nil && sc.State() == lime.SessionStateEstablished {
					res = "est"
				}
			}
			r.mu.Lock()
			r.served[c] = true
			r.mu.Unlock()
			r.log(Event{K: "hs", S: c, Res: res})
			if res != "est" {
				return // nothing of the model happens between here and the end of the goroutine
			}
		}
	case point == "las.serving":
		r.log(Event{K: "serving"})
		return
	default:
		return
	}
	if !gating[point] || atomic.LoadInt32(&r.free) == 1 {
		return
	}
	ch := r.gate(proc)
	r.arrivals <- arrival{proc, point}
	<-ch
}

// census counts goroutines still inside the serving code of the library.
func census() int {
	buf := make([]byte, 1<<22)
	n := runtime.Stack(buf, true)
	cnt := 0
	for _, blk := range bytes.Split(buf[:n], []byte("\n\n")) {
		if bytes.Contains(blk, []byte("lime-go.(*Server).handleChannel")) ||
			bytes.Contains(blk, []byte("lime-go.(*Server).consumeTransports")) ||
			bytes.Contains(blk, []byte("lime-go.acceptTransports")) ||
			bytes.Contains(blk, []byte("lime-go.receiveFromTransport")) && bytes.Contains(blk, []byte("server")) {
			cnt++
		}
	}
	return cnt
}

func connName(c string) string { // guest identity: a UUID for "est", not one for "failed"
	return fmt.Sprintf("0000000%s-1f47-4a8e-9b6d-0c2e7f318a54", c[1:])
}

func connOfName(name string) string {
	if len(name) == 36 && strings.HasSuffix(name, "-1f47-4a8e-9b6d-0c2e7f318a54") {
		return "c" + name[7:8]
	}
	if strings.HasPrefix(name, "nouuid-") {
		return name[7:]
	}
	return ""
}

// Run executes one case and streams its events to stdout.
func Run(c Case) int {
	r := &run{out: json.NewEncoder(os.Stdout), release: map[string]chan struct{}{}, parked: map[string]string{},
		arrivals: make(chan arrival, 32), lisName: map[lime.TransportListener]string{}, pendingL: map[string][]string{}, dialled: map[string]lime.Transport{}, served: map[string]bool{},
		connOf: map[lime.Transport]string{}, chanOf: map[string]*lime.ServerChannel{}, sidConn: map[string]string{},
		exited: map[string]bool{}}
	cur = r
	lisNames := []string{"l1"}
	if c.Cfg.Tier == "thorough" {
		lisNames = append(lisNames, "l2")
	}
	mux := &lime.EnvelopeMux{}
	mux.MessageHandlerFunc(nil, func(ctx context.Context, m *lime.Message, s lime.Sender) error {
		sid, _ := lime.ContextSessionID(ctx)
		r.mu.Lock()
		cn := r.sidConn[sid]
		r.mu.Unlock()
		r.log(Event{K: "dispatch", S: cn})
		return nil
	})
	cfg := lime.NewServerConfig()
	cfg.Node = lime.Node{Identity: lime.Identity{Name: "postmaster", Domain: "example.com"}, Instance: "srv"}
	cfg.SchemeOpts = []lime.AuthenticationScheme{lime.AuthenticationSchemeGuest}
	cfg.Backlog = 1
	cfg.ChannelBufferSize = 4
	cfg.Authenticate = func(ctx context.Context, id lime.Identity, a lime.Authentication) (*lime.AuthenticationResult, error) {
		if strings.HasPrefix(id.Name, "nouuid-") {
			return lime.UnknownAuthenticationResult(), nil
		}
		return lime.MemberAuthenticationResult(), nil
	}
	cfg.Register = func(ctx context.Context, n lime.Node, sc *lime.ServerChannel) (lime.Node, error) {
		r.mu.Lock()
		r.chanOf[connOfName(n.Name)] = sc
		r.mu.Unlock()
		return lime.Node{Identity: lime.Identity{Name: n.Name, Domain: "example.com"}, Instance: "reg"}, nil
	}
	cfg.Established = func(sid string, sc *lime.ServerChannel) {
		r.mu.Lock()
		cn := r.connOf[lime.VerifTransport(sc)]
		r.sidConn[sid] = cn
		r.mu.Unlock()
		r.log(Event{K: "cbEst", S: cn})
	}
	cfg.Finished = func(sid string) {
		r.mu.Lock()
		cn := r.sidConn[sid]
		r.mu.Unlock()
		r.log(Event{K: "cbFin", S: cn})
	}
	var bound []lime.BoundListener
	addrs := map[string]net.Addr{}
	for _, ln := range lisNames {
		var l lime.TransportListener
		var a net.Addr
		if c.Cfg.Transport == "tcp" {
			pl, err := net.Listen("tcp", "127.0.0.1:0")
			if err != nil {
				fmt.Fprintln(os.Stderr, err)
				return 2
			}
			a = pl.Addr()
			pl.Close()
			l = lime.NewTCPTransportListener(&lime.TCPConfig{})
		} else {
			ia := lime.InProcessAddr(fmt.Sprintf("srvlife-%d-%s", c.N, ln))
			a = ia
			l = lime.NewInProcessTransportListener(ia)
		}
		r.lisName[l] = ln
		addrs[ln] = a
		bound = append(bound, lime.NewBoundListener(l, a))
	}
	srv := lime.NewServer(cfg, mux, bound...)
	lasDone := make(chan struct{})
	closeDone := make(chan struct{})
	finishReq := map[string]chan struct{}{}
	stop := make(chan struct{})
	var clients sync.WaitGroup

	advance := func(proc string, d time.Duration) bool {
		dl := time.After(d)
		for {
			if _, ok := r.parked[proc]; ok {
				return true
			}
			r.mu.Lock()
			ex := r.exited[proc]
			r.mu.Unlock()
			if ex {
				return false
			}
			select {
			case a := <-r.arrivals:
				r.parked[a.proc] = a.point
			case <-dl:
				return false
			}
		}
	}
	release := func(proc string) bool {
		if _, ok := r.parked[proc]; !ok {
			return false
		}
		delete(r.parked, proc)
		r.gate(proc) <- struct{}{}
		return true
	}
	step := func(proc string) { // let proc take one step from its gate, then wait for it to park again
		if !advance(proc, 500*time.Millisecond) {
			return
		}
		release(proc)
		advance(proc, 60*time.Millisecond)
	}
	dial := func(cn, ln string) (lime.Transport, error) {
		if c.Cfg.Transport == "tcp" {
			ctx, cancel := context.WithTimeout(context.Background(), 2*time.Second)
			defer cancel()
			return lime.DialTcp(ctx, addrs[ln], nil)
		}
		return lime.DialInProcess(addrs[ln].(lime.InProcessAddr), 1)
	}
	startClient := func(cn, ln string) {
		t, err := dial(cn, ln)
		if err != nil {
			r.log(Event{K: "dialerr", S: cn, L: ln})
			return
		}
		r.mu.Lock()
		r.pendingL[ln] = append(r.pendingL[ln], cn)
		r.mu.Unlock()
		r.log(Event{K: "arrive", S: cn, L: ln})
		r.mu.Lock()
		r.dialled[cn] = t
		r.mu.Unlock()
		fr := make(chan struct{}, 1)
		finishReq[cn] = fr
		outcome := c.Cfg.Outcome[cn]
		clients.Add(1)
		go func() {
			defer clients.Done()
			ctx, cancel := context.WithTimeout(context.Background(), 20*time.Second)
			defer cancel()
			if outcome == "stall" {
				// says hello and then never answers: only the server can end this handshake
				_ = t.Send(ctx, &lime.Session{State: lime.SessionStateNew})
				select {
				case <-stop:
				case <-time.After(18 * time.Second):
				}
				if t.Connected() {
					t.Close()
				}
				return
			}
			if outcome == "gone" {
				// a first envelope in the wrong state, and away
				_ = t.Send(ctx, &lime.Session{State: lime.SessionStateAuthenticating})
				_ = t.Close()
				return
			}
			if outcome == "err" {
				m := &lime.Message{}
				m.SetContent(lime.TextDocument("not a session"))
				_ = t.Send(ctx, m)
				select {
				case <-stop:
				case <-time.After(15 * time.Second):
				}
				if t.Connected() {
					t.Close()
				}
				return
			}
			name := connName(cn)
			if outcome == "failed" {
				name = "nouuid-" + cn
			}
			cc := lime.NewClientChannel(t, 4)
			ses, err := cc.EstablishSession(ctx, nil, nil, lime.Identity{Name: name, Domain: "example.com"},
				func([]lime.AuthenticationScheme, lime.Authentication) lime.Authentication {
					return &lime.GuestAuthentication{}
				}, "i")
			if err != nil || ses.State != lime.SessionStateEstablished {
				_ = cc.Close()
				return
			}
			m := &lime.Message{}
			m.SetContent(lime.TextDocument("hello"))
			m.ID = "m-" + cn
			_ = cc.SendMessage(ctx, m)
			select {
			case <-cc.RcvDone():
				if cc.State() == lime.SessionStateFinished {
					r.log(Event{K: "finished", S: cn})
				}
			case <-fr:
				if outcome == "drop" { // goes away without a word
					r.log(Event{K: "gone", S: cn})
					_ = lime.VerifTransport(cc).Close()
					return
				}
				fs, err := cc.FinishSession(ctx)
				if err == nil && fs.State == lime.SessionStateFinished {
					r.log(Event{K: "finished", S: cn})
				} else if func() bool {
					// the server may be finishing the session on its own at this very moment: what
					// counts is whether the client's receiver ends up seeing the finished session
					select {
					case <-cc.RcvDone():
					case <-time.After(time.Second):
					}
					return cc.State() == lime.SessionStateFinished
				}() {
					// the server finished the session on its own before the request was made:
					// the client's receiver saw the finished session
					r.log(Event{K: "finished", S: cn})
				} else {
					rd := "open"
					select {
					case <-cc.RcvDone():
						rd = "closed"
					default:
					}
					r.log(Event{K: "clienterr", S: cn, Res: fmt.Sprint(err), A: string(cc.State()), B: rd})
				}
			case <-stop:
			}
			_ = cc.Close()
		}()
	}

	for _, s := range c.Script {
		switch {
		case s.P == "las" && s.A == "Start":
			go func() {
				defer close(lasDone)
				err := srv.ListenAndServe()
				res := "other"
				switch {
				case errors.Is(err, lime.ErrServerClosed):
					res = "closed"
				case err == nil:
					res = "nil"
				default:
					res = err.Error()
				}
				r.log(Event{K: "lasret", Res: res})
			}()
			dl := time.Now().Add(2 * time.Second)
			for atomic.LoadInt32(&r.nEvents) == 0 && time.Now().Before(dl) { // until "serving" is logged
				select {
				case a := <-r.arrivals:
					r.parked[a.proc] = a.point
				case <-time.After(time.Millisecond):
				}
			}
		case strings.HasPrefix(s.A, "Arrive:"):
			startClient(s.P, s.A[7:])
			time.Sleep(time.Millisecond)
		case strings.HasPrefix(s.P, "acc:") || s.P == "cons":
			step(s.P)
		case s.P == "close" && s.A == "Cancel":
			r.log(Event{K: "closecall"})
			go func() {
				defer close(closeDone)
				_ = srv.Close()
				r.log(Event{K: "closeret"})
			}()
			advance("close", 500*time.Millisecond)
		case s.P == "close":
			if release("close") {
				if s.A == "Queue" {
					select {
					case <-closeDone:
					case <-time.After(time.Second):
					}
				} else {
					advance("close", 500*time.Millisecond)
				}
			}
		case strings.HasPrefix(s.P, "sess:"):
			switch {
			case s.A == "Handshake":
				if advance(s.P, 500*time.Millisecond) && r.parked[s.P] == "sess.start" {
					release(s.P)
					advance(s.P, 300*time.Millisecond) // parks at sess.handshake if established
				}
			case s.A == "CbEstablished":
				if r.parked[s.P] == "sess.handshake" {
					release(s.P)
				}
			case s.A == "ListenEnds:client":
				if fr := finishReq[s.P[5:]]; fr != nil {
					select {
					case fr <- struct{}{}:
					default:
					}
				}
				advance(s.P, 500*time.Millisecond)
			case s.A == "ListenEnds:ctx":
				advance(s.P, 500*time.Millisecond)
			case s.A == "Finish":
				if advance(s.P, 500*time.Millisecond) && r.parked[s.P] == "sess.finish" {
					release(s.P)
					time.Sleep(2 * time.Millisecond)
				}
			}
		case s.P == "las" && s.A == "Return":
			select {
			case <-lasDone:
			case <-time.After(time.Second):
			}
		case s.A == "End":
			// let everything run to completion and look at what is left
			atomic.StoreInt32(&r.free, 1)
			for k := 0; k < 3; k++ {
				for proc := range r.parked {
					release(proc)
				}
				select {
				case a := <-r.arrivals:
					r.parked[a.proc] = a.point
				case <-time.After(2 * time.Millisecond):
				}
			}
			select {
			case <-lasDone:
			case <-time.After(300 * time.Millisecond):
			}
			// with the clients still connected: whatever served them must be gone by itself
			left := 0
			bound := 1500 * time.Millisecond
			if c.Cfg.Transport == "tcp" {
				bound = 7 * time.Second
			}
			dl := time.Now().Add(bound)
			for {
				select {
				case a := <-r.arrivals:
					r.parked[a.proc] = a.point
					release(a.proc)
				default:
				}
				left = census()
				if left == 0 || time.Now().After(dl) {
					break
				}
				time.Sleep(5 * time.Millisecond)
			}
			// connections that were made but never served (still in a listener's or the server's queue
			// when Close came): is anybody going to close them, or is the client left waiting?
			r.mu.Lock()
			var waiting []string
			for cn, t := range r.dialled {
				if !r.served[cn] && t.Connected() {
					waiting = append(waiting, cn)
				}
			}
			r.mu.Unlock()
			sort.Strings(waiting)
			for _, cn := range waiting {
				r.log(Event{K: "stranded", S: cn})
			}
			r.log(Event{K: "end", Res: "quiet", N: left})
			close(stop)
		}
	}
	return 0
}
